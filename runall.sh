#!/bin/bash
# runs every claimed check (quick tier) and prints the RESULT lines; for development use
cd "$(dirname "$0")"
ids=$(python3 -c "import json; print(' '.join(c['property_id'] for c in json.load(open('MANIFEST.json'))['checks']))")
for p in $ids; do
  ( timeout 1500 python3 check.py $p --tier ${1:-quick} > /tmp/runall_$p.log 2>&1; echo "$p exit=$? $(grep -E '^(RESULT|ANALYSIS-ERROR)' /tmp/runall_$p.log | tail -1)" ) &
  while [ $(jobs -r | wc -l) -ge 4 ]; do sleep 0.5; done
done
wait
