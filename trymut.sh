#!/bin/bash
# usage: trymut.sh <patch file> <Cxx> [more Cxx...]   - applies the patch to /repo, runs the checks, always undoes it
patch=$1; shift
cd /repo || exit 2
git apply --check "$patch" || { echo "patch does not apply"; exit 2; }
git apply "$patch"
for p in "$@"; do
  out=$(cd /verif && VERIF_OUT=/tmp/trymut_out python3 check.py $p 2>&1)
  echo "$p exit=$? :: $(echo "$out" | grep -E '^  violation:|ANALYSIS-ERROR' | head -3 | cut -c1-260)"
done
git -C /repo checkout -- .
git -C /repo status --short | head -3
