#!/usr/bin/env python3
"""Entry point of every registered check:  check.py <Cxx> [--tier quick|thorough]

exit 0: property held on everything analysed (known findings printed as KNOWN-FINDING lines)
exit 1: at least one violation not listed in known_findings.json (VIOLATION line per finding)
exit 2: ANALYSIS-ERROR (unsupported construct, vanished anchor, vacuous rule, internal error)
"""
import importlib
import os
import sys
import traceback

sys.path.insert(0, os.path.dirname(os.path.abspath(__file__)))
sys.setrecursionlimit(20000)


def main(argv):
    if len(argv) < 2:
        print(__doc__)
        return 2
    prop = argv[1]
    tier = os.environ.get('VERIF_TIER') or 'quick'
    if '--tier' in argv:
        tier = argv[argv.index('--tier') + 1]
    from sa.model import Model, AnalysisError
    from sa.core import Ctx
    try:
        model = Model()
        ctx = Ctx(prop, tier, model)
        mod = importlib.import_module('sa.rules_%s' % prop.lower())
        mod.run(ctx, tier)
        return ctx.finish()
    except AnalysisError as ex:
        print('ANALYSIS-ERROR property=%s %s' % (prop, ex))
        return 2
    except Exception as ex:  # noqa
        traceback.print_exc()
        print('ANALYSIS-ERROR property=%s internal error: %s' % (prop, ex))
        return 2


if __name__ == '__main__':
    sys.exit(main(sys.argv))
