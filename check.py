#!/usr/bin/env python3
"""Entry point of every registered check:  check.py <Cxx> [--tier quick|thorough]

exit 0: property held on everything analysed (known findings printed as KNOWN-FINDING lines)
exit 1: at least one violation not listed in known_findings.json (VIOLATION line per finding)
exit 2: ANALYSIS-ERROR (unsupported construct, vanished anchor, vacuous rule, internal error)
"""
import importlib
import os
import sys
import traceback

sys.path.insert(0, os.path.dirname(os.path.abspath(__file__)))
sys.setrecursionlimit(20000)


def main(argv):
    if len(argv) < 2:
        print(__doc__)
        return 2
    prop = argv[1]
    tier = os.environ.get('VERIF_TIER') or 'quick'
    if '--tier' in argv:
        tier = argv[argv.index('--tier') + 1]
    from sa.model import Model, AnalysisError
    from sa.core import Ctx
    try:
        model = Model()
        ctx = Ctx(prop, tier, model)
        mod = importlib.import_module('sa.rules_%s' % prop.lower())
        mod.run(ctx, tier)
        if tier == 'thorough' and not os.environ.get('VERIF_NO_SELFTEST'):
            run_selftest(ctx, prop)
        return ctx.finish()
    except AnalysisError as ex:
        print('ANALYSIS-ERROR property=%s %s' % (prop, ex))
        return 2
    except Exception as ex:  # noqa
        traceback.print_exc()
        print('ANALYSIS-ERROR property=%s internal error: %s' % (prop, ex))
        return 2


def run_selftest(ctx, prop):
    """thorough tier: apply the seeded variants / neutral refactors of this property to scratch copies and record how
    many the quick check reports.  The numbers describe the checker; they never change this check's verdict."""
    import json
    import subprocess
    import tempfile
    here = os.path.dirname(os.path.abspath(__file__))
    out = tempfile.mktemp(prefix='verif-selftest-', suffix='.json')
    env = dict(os.environ, VERIF_SELFTEST_OUT=out, VERIF_NO_SELFTEST='1')
    env.pop('VERIF_TIER', None)
    try:
        subprocess.run([sys.executable, os.path.join(here, 'selftest.py'), prop, '--jobs', '8'], env=env,
                       capture_output=True, text=True, timeout=3000)
        ctx.extra['selftest'] = json.load(open(out))
    except Exception as ex:  # noqa
        ctx.extra['selftest'] = {'error': str(ex)}
    finally:
        if os.path.exists(out):
            os.remove(out)


if __name__ == '__main__':
    sys.exit(main(sys.argv))
