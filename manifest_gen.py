#!/usr/bin/env python3
"""Regenerates MANIFEST.json from the table below (keeps it valid at all times)."""
import json
import os

HERE = os.path.dirname(os.path.abspath(__file__))

CLAIMS = {
    'C01': ('path-sensitive abstract interpretation of the motion handlers (suppression dominance, episode quiet, '
            'tracking against the exact firmware reference, including arcs that are not handed on) + exhaustive walk of the '
            'sample/region loops; frame conditions of the AxisPosition mutators (C08.R8), arc sampling (C16), region geometry '
            '(C17) and the word tokeniser (C19) as premises',
            'decides the structure of suppression; region geometry (C17) and unit algebra (C08) are separate; '
            'floating point is treated as real arithmetic'),
    'C02': ('inductive invariant over all handler paths of the abstract interpreter: outside an episode with no owed '
            'recovery and no destination inside a region every code is returned as None or exactly [cmd]; the tracked position '
            'is the firmware\'s after every move and every executed arc (also while exclusion is disabled); frame conditions of '
            'the AxisPosition mutators (C08.R8) as premise',
            'complete over the finite abstraction (booleans, orderings, provenance); "inside a region" is the abstract '
            'outcome of containsPoint'),
    'C03': ('abstract interpretation of exitExcludedRegion / entering paths with numbers in polynomial normal form: '
            'composition, Z ordering, each word equals the firmware-side logical value of the tracked position; on every move '
            'path that closes an episode the generated travel goes to the position tracked at the end of the command; '
            'writer census of the episode flag',
            'real arithmetic; firmware convention logical*unit+offsets; relative-mode exit is a recorded known finding'),
    'C04': ('typestate analysis: the abstract paths of the handlers are the transition relation of a finite machine over '
            '(excluding, retraction record) x ghost printer (E-register offset, retracted length) x file state; the meaning of '
            'generated G92 E / G1 E pairs is derived from their polynomial values; exhaustive breadth-first exploration under '
            'the environment of the quantifier; plus restore pairing and unit algebra of RetractionState._addCommands; the C01 path '
            'rules (what may reach the printer while an episode is open) as premises',
            'absolute E mode, equal-length E-only or firmware cycles; two recorded known findings (dropped retraction outside a '
            'region, owed recovery computed from the advanced E)'),
    'C05': ('the same typestate machine with the retraction-depth invariants (never deeper than one cycle, never shallower than '
            'the file, differs only while a recovery is owed, zero when an extruding move is forwarded), firmware parity and '
            'parameter provenance, regex language inclusion for the parameter extraction',
            'matched equal-length cycles, not mixed; retracting travel moves (wipes) are outside the quantifier'),
    'C06': ('abstract interpretation over an ordered-map domain of the defer/drain functions (all four modes x entry '
            'present/absent), exit/enter composition, writer census of the pending map (one slot per configured code: recorded '
            'under the code itself), aliasing of script lists',
            'string content of merged commands is C07; OctoPrint settings plumbing trusted'),
    'C10': ('effect analysis: the set of state fields written on any abstract path of any hook is contained in the set '
            'resetState re-assigns with fresh values on all paths; print-started ordering; no global/class-level state; '
            'configuration writers census',
            'sufficient condition, fully static; parser scratch object re-initialised by every parse (C18)'),
    'C16': ('abstract interpretation of planArc / computeArcCenterOffsets with polynomial value numbering over opaque '
            'trigonometric applications: end point verbatim, circle form of every sample, equal angular steps travel/n from '
            'atan2(-j,-i), n-1 samples, direction normalisation of the sweep, cross/dot arguments of the sweep angle, '
            'segment density, centre law of the radius form (with rewrite rules hypot^2, sqrt^2), no raising path; handler wiring '
            'on every G2/G3 path (every arc the firmware executes is sampled; end point and centre offsets from this command\'s words, 0 where absent, direction, the planned '
            'points handed on in order); module-level tables that may change at run time are read as unknown history',
            'ONLY the symbolic construction is decided: floating-point values of the samples (rounding in atan2/cos/sin, drift, '
            'chord lengths) are not decided by this family; absolute positioning only'),
    'C17': ('exhaustive evaluation over the sign/order decisions of every comparison in containsPoint / containsRegion / '
            'the rectangle constructor: on every abstract path the answer must equal the closed-set specification and every '
            'obligation must have been decided on the right quantities (polynomial normal forms); class exhaustiveness',
            'real arithmetic; that corner/extreme-point tests imply containment of the whole inner region (convexity) is not decided'),
    'C18': ('regex automata over a 16-class alphabet (totality, progress, capture-group tiling of the line regex) and '
            'abstract interpretation of GcodeParser.parse / parseLines / fullText / stringify / validate with symbolic match '
            'objects (freshness of every reader attribute, fullText = tiling groups in order, offset chaining, checksum text agreement, '
            'checksum bookkeeping on every path whatever the checksum value, the parameter text rendered whenever it is not None)',
            'decides losslessness ingredients and checksum agreement; idempotence of normalisation as a whole is not decided; '
            'semantics of re as in re._parser'),
    'C19': ('regex language inclusion both ways against the RS274 number grammar, tokeniser progress automaton, abstract '
            'interpretation of parameterItems (order, upper-casing, float conversion, offset chaining, every matched word yielded), last-wins of '
            'parameterDict, dependence analysis letter -> tracked quantity over all handler paths, last-wins for repeated words, '
            'insensitivity of every handler to the trailing string-argument item of parameterItems; freshness of the shared parser '
            '(every reader attribute, the cached word map included, re-assigned by parse: C18.R5 as premise)',
            'float() versus firmware strtod trusted; at most two occurrences per letter in the handler analysis'),
    'C20': ('abstract interpretation of StreamProcessor.__init__ (heap reachability: no live object reachable, deep copy) '
            'and process_line over the result shapes of the handlers (mapping, EOL, byte-for-byte pass-through, stale reads '
            'through the shared parser, flags of the command handed to the handlers); census of class-level containers (none '
            'changed in place unless owned per instance) and of handler-object configuration (none besides the state); result '
            'shapes of every handler path (C09.R1/R3/R4 as premises)',
            'what OctoPrint passes to the live hook is assumed to be the stripped command'),
    'C11': ('abstract interpretation of on_event for every event constant x active flag x clear setting against the '
            'reference transition table; hooks with no active print return None without effects; writer census of the flag; '
            'the clear-after-print field is refreshed from the stored setting on every path of the settings handler, raising ones included',
            'OctoPrint event delivery and distinctness of event names trusted; stored settings valid'),
    'C12': ('abstract interpretation of every API command (add, update, delete, unknown) under (printing, shrinking disallowed): refusal is '
            'effect free, a replacement is dominated by new.containsRegion(old)=True on the id-matched slot; writer census '
            'of the region list and of region geometry fields; the may-shrink field is refreshed from the stored setting on every '
            'path of the settings handler; the containment predicates themselves (all C17 rules); the event machine of the '
            'print-activity flag (C11.R1 / R3 as premises: paused is still printing)',
            'soundness of containsRegion itself is C17; regions reachable only through the state list'),
    'C13': ('abstract interpretation of every API command and event: id-uniqueness guard, access check first, '
            'mutation/notification pairing on every path, payload shape agreement between notification and GET, one id relation '
            '(raw ==) shared by the uniqueness guard and the selectors of replace/delete',
            'ids compared with ==; serialisation by OctoPrint trusted'),
    'C14': ('abstract interpretation of handleAtCommand over symbolic configured actions (action mapping, exit sequence '
            'sent in order, streaming/no-match effect free) and of the motion handlers with exclusion disabled '
            '(no exclusion, tracked position equal to the firmware reference in both positioning modes); the retraction / '
            'E-register typestate machine with the @-command actions in its environment (nothing owed is lost through a disable); '
            'the matching decision depends only on whether the configured pattern matched; the offline path (stream processor line '
            'rules C20.R2-R6: what an @-command generates reaches the output) and the tracking / frame / tokeniser premises',
            'parameter pattern matching is a user regular expression (opaque); exit sequence itself is C03'),
    'C15': ('abstract interpretation of handleScriptHook for matching / other / symbolic script names x active x '
            'excluding: contributes the exit sequence as prefix exactly when required, closes the episode, otherwise no effect; the '
            'prefix is a fresh list (configured scripts neither handed out nor mutated); the print-activity flag it is conditioned on follows '
            'the event-transition table (C11.R1 / R3 as premises)',
            'ordering of script hook versus print-done event is OctoPrint behaviour'),
    'C07': ('every synthesised command found on any abstract path (exit, retraction, firmware retract) and the merged '
            'deferred command: skeleton shape, distinct letters, and a per-word proof that the formatter cannot produce '
            'exponent notation (fixed-point spec, integer, or helper whose every return is guarded by a test for an exponent marker); '
            'language inclusion (regex automata) of every command text the hooks can pass in the parameter-extraction regex of the firmware retract / recover commands; '
            'writer census of the remembered command text spliced into them; string surgery on rendered numbers refused; the values '
            'themselves: algebra of the generated G92 E / G1 E pair (C04.R3 / R4), the exit value rules C03.R1 / R4 and the mode '
            'semantics of the deferred parameter map (C06.R6) as premises',
            'finiteness of the values is not decided'),
    'C08': ('conversion laws of AxisPosition as polynomial identities (round trips in both modes, firmware map, G92 law, '
            'homing), native arguments of the region tests, sibling agreement of G20/G21/G90/G91 over all axes and the feed '
            'rate, ownership census of the axis fields, mode validity of the arc handlers\' coordinates, exact firmware reference for '
            'the tracked position after every G0/G1 path and after point lists in both positioning modes, unit homogeneity of '
            'every decision polynomial',
            'decides the inch / relative / G92 re-encodings up to exact arithmetic; translation by a common vector and '
            'round-off near borders are not decided; G92 law and relative-mode arcs are recorded known findings'),
    'C09': ('every abstract path of every handler: result shape None / IGNORE / non-empty list of non-empty commands; '
            'every partial operation (division, sqrt, index, None arithmetic, raise) forks an exceptional path that '
            'must be infeasible under the sign/order facts of the path; hook arguments unknown (sub code: None, text or integer); '
            'totality of the region predicates decided on their own bodies (C17.R1 / R2 as premises; float ** is a partial operation)',
            'homed axes; parser summary; finiteness of floats (known limitation, see DESIGN)'),
}

NA_REASON = 'check not implemented yet (work in progress, see DESIGN.md section 4 for the planned rules)'


def main():
    props = [json.loads(l) for l in open(os.path.join(HERE, 'properties.jsonl'))]
    checks = []
    for p in props:
        pid = p['id']
        if pid not in CLAIMS:
            continue
        text, note = CLAIMS[pid]
        checks.append({
            'property_id': pid,
            'quick_cmd': 'python3 check.py %s --tier quick' % pid,
            'thorough_cmd': 'python3 check.py %s --tier thorough' % pid,
            'evidence_file': 'evidence/%s.json' % pid,
            'engine': 'sa',
            'level_claimed': {'category': 'other',
                              'text': 'static analysis, decided from the source without running it: ' + text,
                              'design_ref': 'DESIGN.md section 4, ' + pid},
            'level_note': note + '; trusted base: the analyser in sa/ (python ast, no third-party code)',
            'technique': 'static analysis (ast): path-sensitive abstract interpretation / dataflow / census rules',
        })
    from notapplicable import NOT_APPLICABLE
    na = []
    for p in props:
        if p['id'] not in CLAIMS:
            na.append({'property_id': p['id'], 'reason': NOT_APPLICABLE.get(p['id'], NA_REASON)})
    man = {
        'version': 1,
        'setup_cmd': 'true',
        'hooks': {'guard': 'EXCLUDEREGION_VERIF',
                  'enable': 'no hooks are needed: nothing of /repo is executed by any check',
                  'baseline_off_cmd': 'cd /repo && /venv/bin/python -m pytest -ra -q -p no:cacheprovider --timeout=900 '
                                      '--continue-on-collection-errors',
                  'source_commits': [], 'add_only': True},
        'engines': [{'name': 'sa', 'path': 'sa/', 'serves_properties': sorted(CLAIMS),
                     'kind_free_text': 'repository-specific static analyser on python ast: program model, polynomial '
                                       'value numbering, path-sensitive abstract interpreter, regex automata, census rules'}],
        'checks': checks,
        'not_applicable': na,
        'notes': 'every check: python3 check.py <id> [--tier quick|thorough]; exit 0 held / 1 VIOLATION / 2 ANALYSIS-ERROR. '
                 'known_findings.json lists recorded defects (KNOWN-FINDING lines) and repaired ones (fixed:). '
                 'selftest.py applies the seeded variants of variants.py to scratch copies.',
    }
    json.dump(man, open(os.path.join(HERE, 'MANIFEST.json'), 'w'), indent=1)
    print('claimed', sorted(CLAIMS), 'n/a', [x['property_id'] for x in na])


if __name__ == '__main__':
    main()
