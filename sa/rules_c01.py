"""C01 - no motion into and no extrusion inside an excluded region (structure of suppression)."""
import re

from .handlers import run_path_rules
from .entries import make_interp, new_handlers_state, Path
from .pathfacts import Facts, live_alts, classify, template_letters, S_OID
from .values import NONE, Num, Str, SStr, Cat, Obj, TupleV, Star, Choice
from .absint import Raised

PROP = 'C01'
MOTION = ('G0', 'G1', 'G2', 'G3')


def declare(c):
    c.rule('C03.R8', 'C03: the travel generated when a move leaves a region goes to the position tracked at the end of that command '
                     '(the tested destination, outside every region) - with both X and Y, and Z unless unchanged', floor=50)
    c.rule('C01.R1', 'a forwarded move requires a region test that failed (or exclusion disabled) and a state that is '
                     'not excluding; X/Y/Z words are synthesised only when leaving a region', floor=200)
    c.rule('C01.R2', 'while an episode is open (and on the entering move) only the enter script and genuine '
                     'retractions are emitted', floor=100)
    c.rule('C01.R3', 'every sampled point of a move reaches the region test (no early exit other than "excluded")',
           floor=1)
    c.rule('C01.R4', 'the region test consults every defined region', floor=1)
    c.rule('C01.R5', 'an episode is opened only when some point tested inside a region', floor=20)
    c.rule('C01.R7', 'forwarded output is built per command: configured script lists are copied, never extended or returned', floor=200)
    c.rule('C01.R8', 'the point handed to the region test is the native destination itself (logical*unit+offsets, or '
                     'current+logical*unit in relative mode) - not a rounded, clamped or otherwise adjusted value - and the '
                     'tracked position afterwards is that point', floor=8)
    c.rule('C01.R6', 'tracked X/Y/Z follow the last point of every move whatever the region tests said', floor=200)


def _sign_of_pair(I, st, a, b):
    """possible signs of (b - a) for numeric template arguments (alternatives joined)"""
    out = set()
    for x in live_alts(st, a):
        for y in live_alts(st, b):
            if isinstance(x, Num) and isinstance(y, Num):
                out |= set(I.infer_signs(st, y.p - x.p))
            else:
                out |= {-1, 0, 1}
    return out


def quiet_violation(I, st, elems, allow_enter):
    """None if the output consists of (enter script)? + retractions only"""
    i = 0
    flat = []
    for e in elems:
        flat.append(live_alts(st, e))
    if allow_enter and flat and all(isinstance(a, Star) and a.tag == 'enterScript' for a in flat[0]):
        i = 1
    while i < len(flat):
        alts = flat[i]
        kinds = set(classify(a) for a in alts)
        if all(k.startswith('tmpl:G10') or k == 'lit:G10' for k in kinds):
            i += 1
            continue
        if kinds == {'tmpl:G92 E{}'} and i + 1 < len(flat):
            nxt = flat[i + 1]
            if all(isinstance(a, Cat) and a.skeleton().startswith('G1 ') and
                   set(template_letters(a.skeleton())) <= {'E', 'F'} for a in nxt):
                # the pair must pull filament back: E target below the E just set
                ok = True
                for g92 in alts:
                    for g1 in nxt:
                        e_set = [p[1] for p in g92.args()][0]
                        e_to = [p[1] for p, l in zip(g1.args(), template_letters(g1.skeleton())) if l == 'E'][0]
                        if not (_sign_of_pair(I, st, e_set, e_to) <= {-1}):
                            ok = False
                if ok:
                    i += 2
                    continue
                return 'G92 E / G1 E pair is not a retraction (target E not below the E just set)'
        return 'element %s is neither the enter script nor a retraction' % '|'.join(sorted(kinds))
    return None


def path_rules(col, gcode, paths, I, own=True):
    if own:
        declare(col)
    for p in paths:
        f = Facts(p, I)
        if f.raised:
            continue
        sig = (gcode, f.describe(), tuple(f.decisions()[-6:]))
        if f.pre_excluding is True and f.post_excluding() is False and gcode in ('G0', 'G1', 'G2', 'G3') \
                and f.kind == 'list' and ('ExcludeRegionState', 'exitExcludedRegion') in f.calls:
            from .rules_c03 import leaving_rule
            leaving_rule(col, gcode, p, f, I)
        called_plm = ('ExcludeRegionState', 'processLinearMoves') in f.calls
        post = f.post_excluding()
        kinds = f.elem_kinds()
        has_cmd = any('CMD' in k for k in kinds)
        has_xyz_tmpl = False
        for ks in kinds:
            for k in ks:
                if k.startswith('tmpl:') and set(template_letters(k[5:])) & {'X', 'Y', 'Z'}:
                    has_xyz_tmpl = True
        detail = {'entry': p.entry, 'result': f.describe(), 'decisions': f.decisions()}
        # ---- R1
        col.instance('C01.R1', sig)
        if has_cmd and gcode in ('G10',) and f.pre_excluding is not True:
            pass        # a firmware retraction outside an episode is forwarded as it is
        elif has_cmd:
            if f.pre_excluding is not False:
                col.report('C01.R1', 'GcodeHandlers.handleGcode', '%s forwards cmd, excluding=%s' % (gcode, f.pre_excluding),
                           'the incoming command is forwarded on a path that is (or may be) inside an episode',
                           detail=detail)
            elif f.any_excluded:
                col.report('C01.R1', 'GcodeHandlers.handleGcode', '%s forwards cmd, point excluded' % gcode,
                           'the incoming command is forwarded although a point of the move tested inside a region',
                           detail=detail)
            elif called_plm and f.pre_enabled is not False and not f.region_tested and _is_move(f, gcode):
                col.report('C01.R1', 'ExcludeRegionState.processLinearMoves', '%s forwards move untested' % gcode,
                           'a move is forwarded without its destination having been tested against the regions',
                           detail=detail)
        if f.kind == 'none' and called_plm:
            col.report('C01.R1', 'GcodeHandlers.handleGcode', '%s passes through after processLinearMoves' % gcode,
                       'a motion command is passed through unfiltered', detail=detail)
        if has_xyz_tmpl and not (f.pre_excluding is True and post is False and not f.any_excluded):
            col.report('C01.R1', 'GcodeHandlers.handleGcode', '%s synthesises motion: %s' % (gcode, f.describe()),
                       'a synthesised X/Y/Z move is emitted on a path that is not "leaving a region with the '
                       'destination outside"', detail=detail)
        # ---- R2
        entering = f.pre_excluding is False and post is True
        inside = f.pre_excluding is True and post is True
        if (entering or inside) and (called_plm or gcode in ('G10', 'G11')):
            col.instance('C01.R2', sig)
            if f.kind == 'list':
                why = quiet_violation(I, p.st, f.elems, allow_enter=entering)
                if why:
                    col.report('C01.R2', 'GcodeHandlers.handleGcode', '%s in episode -> %s' % (gcode, f.describe()),
                               why, detail=detail)
            elif f.kind != 'ignore':
                col.report('C01.R2', 'GcodeHandlers.handleGcode', '%s in episode -> %s' % (gcode, f.describe()),
                           'inside an episode a move must be suppressed', detail=detail)
        # ---- R7: what is forwarded is built on this path; the configured script lists are only copied
        col.instance('C01.R7', sig)
        for e in p.st.trace:
            if e[0].startswith('seq-') and e[1] in (S_OID + '.enteringExcludedRegionGcode', S_OID + '.exitingExcludedRegionGcode'):
                col.report('C01.R7', e[-1] if isinstance(e[-1], str) else 'GcodeHandlers.handleGcode',
                           'configured script list mutated (%s)' % e[0],
                           'commands generated for one episode are appended to a configured script: every later episode replays '
                           'them, including re-positioning moves to places that may be excluded by then', detail=detail)
        if isinstance(p.ret, Obj) and p.ret.oid in (S_OID + '.enteringExcludedRegionGcode', S_OID + '.exitingExcludedRegionGcode'):
            col.report('C01.R7', 'GcodeHandlers.handleGcode', 'configured script list handed out',
                       'the configured script list itself is returned to OctoPrint / the caller', detail=detail)
        # ---- R5
        if ('ExcludeRegionState', 'enterExcludedRegion') in f.calls or (f.pre_excluding is not True and post is True):
            col.instance('C01.R5', sig)
            if not f.any_excluded:
                col.report('C01.R5', 'ExcludeRegionState.enterExcludedRegion', '%s enters without excluded point' % gcode,
                           'an episode is opened although no point of the move tested inside a region', detail=detail)
        # ---- R6
        if not (called_plm or gcode in ('G0', 'G1')):
            from .pathfacts import exact_tracking
            for (fn, construct, msg) in exact_tracking(f, gcode):    # an arc the firmware executes, not handed on
                col.report('C01.R6', fn, construct, msg, detail=detail)
        if called_plm or gcode in ('G0', 'G1'):
            col.instance('C01.R6', sig)
            for axis, letter in (('X_AXIS', 'X'), ('Y_AXIS', 'Y'), ('Z_AXIS', 'Z')):
                aoid = '%s.position.%s' % (S_OID, axis)
                # relative positioning of arcs is a separate (known) matter: decided under absolute mode
                assume = {('fld', aoid, 'absoluteMode'): frozenset([True])} if gcode in ('G2', 'G3') else None
                finals = f.final(aoid, 'current', assume)
                init = '%s.position.%s.current' % (S_OID, axis)
                for v in finals:
                    if not isinstance(v, Num):
                        col.report('C01.R6', 'ExcludeRegionState.processLinearMoves', '%s %s non-numeric' % (gcode, axis),
                                   'tracked position is not a number: %r' % (v,), detail=detail)
                        continue
                    syms = v.p.symbols()
                    deps = set(syms)
                    for s in syms:
                        deps |= I.symdeps(s)
                    if any('planArc' in s and '.ret[' in s for s in syms):
                        col.report('C01.R6', 'ExcludeRegionState.isAnyPointExcluded', '%s %s left mid-arc' % (gcode, axis),
                                   'tracked %s ends at an intermediate arc sample, not at the endpoint' % letter,
                                   detail=detail)
                    if gcode in ('G0', 'G1') and f.valued(letter) and ('p:%s' % letter) not in deps:
                        col.report('C01.R6', 'ExcludeRegionState.processLinearMoves',
                                   '%s %s word not tracked' % (gcode, letter),
                                   'the move carries a %s word but the tracked position does not follow it '
                                   '(enabled=%s, excluded=%s)' % (letter, f.pre_enabled, f.any_excluded), detail=detail)
            from .pathfacts import exact_tracking
            for (fn, construct, msg) in exact_tracking(f, gcode):
                col.report('C01.R6', fn, construct, msg, detail=detail)
        if f.kind == 'list' and (entering or inside):
            col.sample({'entry': p.entry, 'result': f.describe(), 'decisions': f.decisions()[-5:]})


def _is_move(f, gcode):
    if gcode in ('G2', 'G3'):
        return True
    return f.valued('X') or f.valued('Y') or f.valued('Z')


# ---------------------------------------------------------------------- R3 / R4: coverage of samples and regions
def coverage_rules(ctx, tier):
    I = make_interp(ctx.model, unroll=2, modular=False)
    # R3: three symbolic points, one generic region
    st, H, S = new_handlers_state(I)
    st.restrict(('fld', S_OID, '_exclusionEnabled'), frozenset([True]))
    for ax in ('X_AXIS', 'Y_AXIS'):
        st.restrict(('fld', '%s.position.%s' % (S_OID, ax), 'absoluteMode'), frozenset([True]))
    pts = [I.symbol('pt%d%s' % (i, c)) for i in range(3) for c in 'xy']
    st.dom[('more', 'regions', 0)] = frozenset([True])
    st.dom[('more', 'regions', 1)] = frozenset([False])
    res = I.run_method(st, 'ExcludeRegionState', 'isAnyPointExcluded', S, pts)
    for (s, v) in res:
        tested = [k for k in s.dom if k[0] == 'truthy' and 'containsPoint' in repr(k)]
        hits = [k for k in tested if s.dom[k] == frozenset([True])]
        ctx.instance('C01.R3', ('isAnyPointExcluded', repr(v), len(tested)))
        if isinstance(v, Raised):
            ctx.report('C01.R3', 'ExcludeRegionState.isAnyPointExcluded', 'raises %s' % v.exc,
                       'sample walk raises %s: %s' % (v.exc, v.info))
        elif v is False and (len(tested) < 3 or hits):
            ctx.report('C01.R3', 'ExcludeRegionState.isAnyPointExcluded', 'returns False after %d of 3 tests' % len(tested),
                       'the move is reported clear although %s' % ('a sampled point is inside a region' if hits else
                                                                   'not every sampled point was tested'))
        elif v is True and not hits:
            ctx.report('C01.R3', 'ExcludeRegionState.isAnyPointExcluded', 'returns True without a hit',
                       'the move is reported excluded although no sampled point tested inside')
        elif v not in (True, False):
            ctx.report('C01.R3', 'ExcludeRegionState.isAnyPointExcluded', 'non-boolean result', repr(v))
        # every test must be on a (x_i, y_i) pair of the same index, converted to native units
        for k in tested:
            txt = repr(k)
            idx = set(re.findall(r'pt(\d)([xy])', txt))
            if len(set(i for i, _ in idx)) != 1 or set(c for _, c in idx) != {'x', 'y'}:
                ctx.report('C01.R3', 'ExcludeRegionState.isAnyPointExcluded', 'mixed coordinates in a test',
                           'a region test does not use the x and y of one sampled point: %s' % txt[:160])
    # R4: two generic regions, one point
    st, H, S = new_handlers_state(I)
    st.restrict(('fld', S_OID, '_exclusionEnabled'), frozenset([True]))
    st.dom[('more', 'regions', 0)] = frozenset([True])
    st.dom[('more', 'regions', 1)] = frozenset([True])
    st.dom[('more', 'regions', 2)] = frozenset([False])
    res = I.run_method(st, 'ExcludeRegionState', 'isPointExcluded', S, [I.symbol('qx'), I.symbol('qy')])
    for (s, v) in res:
        tested = [k for k in s.dom if k[0] == 'truthy' and 'containsPoint' in repr(k)]
        hits = [k for k in tested if s.dom[k] == frozenset([True])]
        ctx.instance('C01.R4', ('isPointExcluded', repr(v), len(tested)))
        if v is False and (len(tested) < 2 or hits):
            ctx.report('C01.R4', 'ExcludeRegionState.isPointExcluded', 'returns False after %d of 2 regions' % len(tested),
                       'a point is reported clear without every region having been consulted')
        elif v is True and not hits:
            ctx.report('C01.R4', 'ExcludeRegionState.isPointExcluded', 'returns True without a hit',
                       'a point is reported excluded although no region contains it')
        elif v not in (True, False):
            ctx.report('C01.R4', 'ExcludeRegionState.isPointExcluded', 'non-boolean result', repr(v))
    # the list walked is the list the API mutates
    regs = st.heap.get((S_OID, 'excludedRegions'))
    ctx.sample({'rule': 'C01.R3/R4', 'isPointExcluded_paths': len(res)})


def run(ctx, tier):
    declare(ctx)
    run_path_rules(ctx, __name__, 'path_rules', list(MOTION) + ['G10', 'G11'], unroll=2 if tier == 'thorough' else 1,
                   debug_logging=(tier == 'thorough'))
    coverage_rules(ctx, tier)
    # the exit sequence itself: exactly one G92 E and one X/Y travel with both words, Z ordering, logical values (C03.R1 / R4)
    from . import rules_c03
    from .entries import make_interp as _mk
    ctx.rule('C03.R1', 'C03: exit composition - pending, exit script, G92 E, one X/Y travel, Z before XY iff rising / after iff falling', floor=6)
    ctx.rule('C03.R4', 'C03: every word of the exit commands is the logical value of the tracked native position', floor=6)
    rules_c03.exit_rules(ctx, _mk(ctx.model), {('fld', S_OID, 'excluding'): [True]}, 'exitExcludedRegion')
    from .entries import make_interp
    from .rules_c08 import native_args_rule
    native_args_rule(ctx, make_interp(ctx.model), 'C01.R8', 'C01.R8')
    from .rules_c08 import frame_premise
    frame_premise(ctx)
    from .rules_c08 import state_code_premise
    state_code_premise(ctx)
    # "inside a region" means the closed rectangle / disc: the point predicates and the corner normalisation they rely on
    from . import rules_c17
    for rid in ('C17.R1', 'C17.R2'):
        ctx.rule(rid, 'C17: ' + ('containsPoint is exactly the closed rectangle / closed disc test' if rid.endswith('1') else
                                 'constructor normalisation x1<=x2, y1<=y2'), floor=4)
    I17 = make_interp(ctx.model, modular=False)
    I17.merge_ifs = False
    rules_c17.point_rules(ctx, I17)
    rules_c17.ctor_rules(ctx, I17)
    # the words of a command are read the way the firmware reads them (number language, tokeniser progress, word order):
    # a word the parser drops is a move the tracking misses
    from . import rules_c19
    ctx.rule('C19.R1', 'C19: every RS274 decimal is read as one value and nothing else is', floor=2)
    ctx.rule('C19.R2', 'C19: the word tokeniser cannot stop early', floor=1)
    ctx.rule('C19.R3', 'C19: parameterItems yields (upper-cased letter, float | None) in source order', floor=4)
    rules_c19.language_rules(ctx)
    rules_c19.items_rules(ctx, rules_c19.parser_interp(ctx.model, unroll=2))
    # arcs are judged by their sampled points: the sampling itself (end point, circle, equal steps in the commanded
    # direction, density) is a premise (C16.R1-R5, R7; the radius-form centre law R6 has its own known finding under C16)
    from . import rules_c16
    for rid, floor in (('C16.R1', 4), ('C16.R3', 4), ('C16.R4', 4), ('C16.R4b', 4), ('C16.R4c', 2), ('C16.R5', 2), ('C16.R7', 4)):
        ctx.rule(rid, 'C16: ' + {'C16.R1': 'last sampled pair is the commanded end point', 'C16.R3': 'samples lie on the circle',
                                 'C16.R4': 'equal angular steps from the start angle', 'C16.R4b': 'sweep direction and wrap-around',
                                 'C16.R4c': 'sweep angle from cross / dot of the radius vectors', 'C16.R5': 'sample density',
                                 'C16.R7': 'planArc does not raise'}[rid], floor=floor)
    rules_c16.plan_rules(ctx, make_interp(ctx.model, unroll=3, modular=False))
    ctx.assume('region geometry and unit conversion are decided by C17 / C08; here the outcome of containsPoint is a '
               'free boolean per (region, point)')
    ctx.assume('non-motion codes that physically move the tool (G28 inside an episode) are outside this check')
