"""Call evaluation: resolved callees are inlined, external ones go through sa/externals.py."""
import ast

from .values import (NONE, Num, Str, SStr, Cat, Obj, TupleV, Star, Choice, Opaque, Bound, ClassRef, ExtFn,
                     ModuleRef, IterV, ParamIter, FuncV, vkey, deps_of)
from .absint import Raised, Unsupported, _norm
from .exprs import seq_elements


def eval_call(I, st, env, e, frame):
    out = []
    # super(...).__init__() and friends: bases outside the package are external no-ops
    if isinstance(e.func, ast.Attribute) and isinstance(e.func.value, ast.Call) and \
            isinstance(e.func.value.func, ast.Name) and e.func.value.func.id == 'super':
        return super_call(I, st, env, e, frame)
    for (s1, f) in I.evalf(st, env, e.func, frame):
        if isinstance(f, Raised):
            out.append((s1, f))
            continue
        cur = [(s1, [], {})]
        for a in e.args:
            nxt = []
            for (s2, vs, kw) in cur:
                if isinstance(vs, Raised):
                    nxt.append((s2, vs, kw))
                    continue
                if isinstance(a, ast.Starred):
                    for (s3, v) in I.evalf(s2, env, a.value, frame):
                        if isinstance(v, Raised):
                            nxt.append((s3, v, kw))
                        else:
                            nxt.append((s3, vs + seq_elements(I, s3, v), kw))
                else:
                    for (s3, v) in I.eval(s2, env, a, frame):
                        nxt.append((s3, v if isinstance(v, Raised) else vs + [v], kw))
            cur = nxt
        for k in e.keywords:
            nxt = []
            for (s2, vs, kw) in cur:
                if isinstance(vs, Raised):
                    nxt.append((s2, vs, kw))
                    continue
                for (s3, v) in (I.evalf if k.arg is None else I.eval)(s2, env, k.value, frame):
                    if isinstance(v, Raised):
                        nxt.append((s3, v, kw))
                        continue
                    kw2 = dict(kw)
                    if k.arg is None:
                        # **mapping
                        if isinstance(v, Obj) and v.oid in s3.maps:
                            for it in s3.maps[v.oid]:
                                if it[0] == 'kv' and isinstance(it[1], Str):
                                    kw2[it[1].s] = it[2]
                                else:
                                    kw2['**'] = v
                        else:
                            kw2['**'] = v
                    else:
                        kw2[k.arg] = v
                    nxt.append((s3, vs, kw2))
            cur = nxt
        for (s2, vs, kw) in cur:
            if isinstance(vs, Raised):
                out.append((s2, vs))
            else:
                out.extend(apply(I, s2, f, vs, kw, frame, e))
    return out


def super_call(I, st, env, e, frame):
    name = e.func.attr
    cls = frame.cls
    bases = I.m.classes[cls].bases if cls in I.m.classes else []
    for b in bases:
        c, fn = I.m.lookup(b, name)
        if fn is not None:
            # evaluate args
            from .exprs import seq_eval
            out = []
            for (s2, vs) in seq_eval(I, st, env, e.args, frame):
                if isinstance(vs, Raised):
                    out.append((s2, vs))
                else:
                    out.extend(I.run_fn(s2, c, I.m.classes[c].module, fn, env.get('self'), vs, {}, frame.depth + 1))
            return out
    st.ev('ext', 'super.%s' % name, (), frame.qual())
    return [(st, NONE)]


def apply(I, st, f, args, kw, frame, node):
    if isinstance(f, Bound):
        key = (f.cls, f.fn.name)
        if key in I.modular:
            from .modular import modular_call
            return modular_call(I, st, f.cls, f.fn.name, f.recv, args, kw, frame, node)
        if key in I.summaries:
            return I.summaries[key](I, st, f.recv, args, kw, frame, node)
        return I.run_fn(st, f.cls, I.m.classes[f.cls].module, f.fn, f.recv, args, kw, frame.depth + 1, node)
    if isinstance(f, ClassRef):
        return construct(I, st, f.name, args, kw, frame, node)
    if isinstance(f, FuncV):
        if isinstance(f.fn, ast.Lambda):
            lam = f.fn
            fake = ast.FunctionDef(name='<lambda>', args=lam.args, body=[ast.Return(value=lam.body)], decorator_list=[], returns=None)
            ast.copy_location(fake, lam)
            ast.fix_missing_locations(fake)
            return I.run_fn(st, f.cls, f.mod, fake, None, args, kw, frame.depth + 1, node, closure=f.closure)
        if f.closure is not None:
            return I.run_fn(st, f.cls, f.mod, f.fn, None, args, kw, frame.depth + 1, node, closure=f.closure)
        if len(args) == 1 and not kw and is_number_formatter(I, f):
            # pure rendering of one number as text: kept symbolic (the helper's own body is analysed by C07); the ways it
            # can raise are kept as exceptional outcomes of the call
            out = [(st, Cat([('fmt', args[0], '', 'fn:%s' % f.fn.name)]))]
            for r in I._formatters.get((f.mod, f.fn.name, 'raises'), ()):
                s2 = st.clone()
                I.stats['forks'] += 1
                s2.ev('partial', 'formatter-raise', frame.qual(), f.fn.name, getattr(node, 'lineno', 0))
                out.append((s2, Raised(r.exc, r.info, r.where)))
            return out
        return I.run_fn(st, None, f.mod, f.fn, None, args, kw, frame.depth + 1, node)
    if isinstance(f, ExtFn):
        from .externals import call_ext
        return call_ext(I, st, f, args, kw, frame, node)
    if isinstance(f, ModuleRef):
        from .externals import call_ext
        return call_ext(I, st, ExtFn(f.name), args, kw, frame, node)
    if isinstance(f, Opaque):
        from .externals import call_ext
        return call_ext(I, st, ExtFn(f.tag), args, kw, frame, node)
    if f is NONE:
        return [(st, Raised('TypeError', 'NoneType is not callable', (frame.qual(), node.lineno)))]
    raise Unsupported('call of %r in %s' % (f, frame.qual()))


def construct(I, st, cname, args, kw, frame, node):
    if cname not in I.m.classes:
        raise Unsupported('constructing unknown class %s' % cname)
    key = (cname, '__new__')
    if key in I.summaries:
        return I.summaries[key](I, st, None, args, kw, frame, node)
    oid = st.new_oid(cname)
    o = Obj(oid)
    st.ev('new', cname, oid, frame.qual())
    st.flags.add(('fresh', oid))
    c, init = I.m.lookup(cname, '__init__')
    if init is None:
        return [(st, o)]
    out = []
    for (s2, v) in I.run_fn(st, c, I.m.classes[c].module, init, o, args, kw, frame.depth + 1, node):
        out.append((s2, v if isinstance(v, Raised) else o))
    return out


def is_number_formatter(I, f):
    """a module-level function of one argument that, run in isolation on a symbolic float, has no effect and returns on
    every path a string depending on nothing but that argument"""
    cache = I.__dict__.setdefault('_formatters', {})
    key = (f.mod, f.fn.name)
    if key in cache:
        return cache[key]
    cache[key] = False          # recursion guard
    ok = False
    a = f.fn.args
    if len(a.args) == 1 and not a.vararg and not a.kwarg:
        from .state import State
        st = State()
        arg = I.symbol('arg:fmt:%s' % f.fn.name, kind='arg')
        try:
            res = I.run_fn(st, None, f.mod, f.fn, None, [arg], {}, 1)
        except Exception:  # noqa
            res = None
        if res:
            ok = True
            raises = {}
            for (s, v) in res:
                pure = all(e[0] in ('call', 'convert', 'partial') or
                           (e[0] == 'ext' and not any(isinstance(a, Obj) for a in e[2])) for e in s.trace)
                if not pure:
                    ok = False
                    break
                if isinstance(v, Raised):
                    raises.setdefault((v.exc, v.info), v)
                    continue
                from .pathfacts import live_alts
                for x in live_alts(s, v):
                    if not isinstance(x, (Cat, Str)) or not (deps_of(x) <= {'arg:fmt:%s' % f.fn.name}):
                        ok = False
            cache[key + ('results',)] = res
            cache[key + ('raises',)] = list(raises.values())
    cache[key] = ok
    return ok
