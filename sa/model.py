"""Program model (component A): parses /repo's package with `ast`, nothing is imported or executed."""
import ast
import glob
import os

REPO = os.environ.get('VERIF_REPO', '/repo')
PKG_NAME = 'octoprint_excluderegion'


class AnalysisError(Exception):
    """The analyser cannot decide: unsupported construct, vanished anchor, vacuous rule."""


class ClassInfo(object):
    def __init__(self, name, node, module, path):
        self.name = name
        self.node = node
        self.module = module
        self.path = path
        self.bases = []
        for b in node.bases:
            if isinstance(b, ast.Name):
                self.bases.append(b.id)
            else:
                self.bases.append(ast.unparse(b))
        self.methods = {}
        self.props = {}
        self.setters = {}
        self.statics = set()
        for m in node.body:
            if isinstance(m, ast.FunctionDef):
                decos = [ast.unparse(d) for d in m.decorator_list]
                if 'property' in decos:
                    self.props[m.name] = m
                elif any(d.endswith('.setter') for d in decos):
                    self.setters[m.name] = m
                else:
                    self.methods[m.name] = m
                    if 'staticmethod' in decos:
                        self.statics.add(m.name)


class Model(object):
    def __init__(self, repo=None):
        self.repo = repo or REPO
        self.pkg = os.path.join(self.repo, PKG_NAME)
        self.modules = {}       # module name -> ast.Module
        self.paths = {}         # module name -> file path
        self.sources = {}
        self.classes = {}       # class name -> ClassInfo
        self.consts = {}        # (module, name) -> ast node of module-level assignment value
        self.functions = {}     # (module, name) -> FunctionDef (module level)
        self._mro = {}
        self.imports = {}       # module -> {local name: ('mod', dotted) | ('from', module, name)}
        files = sorted(glob.glob(os.path.join(self.pkg, '*.py')))
        if not files:
            raise AnalysisError('no sources found under %s' % self.pkg)
        for f in files:
            mod = os.path.basename(f)[:-3]
            src = open(f, encoding='utf-8').read()
            try:
                tree = ast.parse(src, f)
            except SyntaxError as ex:
                raise AnalysisError('cannot parse %s: %s' % (f, ex))
            self.modules[mod] = tree
            self.paths[mod] = f
            self.sources[mod] = src
            self.imports[mod] = {}
            for s in tree.body:
                self._toplevel(mod, f, s)
        self.nfuncs = sum(len(c.methods) + len(c.props) + len(c.setters) for c in self.classes.values()) \
            + len(self.functions)

    def _toplevel(self, mod, path, s):
        if isinstance(s, ast.ClassDef):
            self.classes[s.name] = ClassInfo(s.name, s, mod, path)
        elif isinstance(s, ast.FunctionDef):
            self.functions[(mod, s.name)] = s
        elif isinstance(s, ast.Assign) and len(s.targets) == 1 and isinstance(s.targets[0], ast.Name):
            self.consts[(mod, s.targets[0].id)] = s.value
        elif isinstance(s, ast.Import):
            for a in s.names:
                self.imports[mod][a.asname or a.name.split('.')[0]] = ('mod', a.name if a.asname else a.name.split('.')[0])
        elif isinstance(s, ast.ImportFrom):
            for a in s.names:
                self.imports[mod][a.asname or a.name] = ('from', s.module or '', a.name, s.level)

    # ---- lookups
    def mro(self, cls):
        r = self._mro.get(cls)
        if r is None:
            r = self._mro[cls] = self._mro_compute(cls)
        return r

    def _mro_compute(self, cls):
        out = []
        work = [cls]
        while work:
            c = work.pop(0)
            if c in out:
                continue
            out.append(c)
            if c in self.classes:
                work.extend(self.classes[c].bases)
        return out

    def lookup(self, cls, name, kind='methods'):
        for c in self.mro(cls):
            ci = self.classes.get(c)
            if ci is not None and name in getattr(ci, kind):
                return c, getattr(ci, kind)[name]
        return None, None

    def method(self, cls, name):
        c, fn = self.lookup(cls, name)
        if fn is None:
            raise AnalysisError('anchor vanished: %s.%s' % (cls, name))
        return fn

    def is_subclass(self, cls, base):
        return base in self.mro(cls)

    def external_bases(self, cls):
        return [b for c in self.mro(cls) if c in self.classes for b in self.classes[c].bases if b not in self.classes]

    def resolve_const(self, mod, name, _depth=0):
        """fold a module-level constant: numbers, strings, + and * of those, tuples; follows imports"""
        if _depth > 20:
            raise AnalysisError('constant resolution too deep: %s.%s' % (mod, name))
        if (mod, name) in self.consts:
            return self.fold(mod, self.consts[(mod, name)], _depth + 1)
        imp = self.imports.get(mod, {}).get(name)
        if imp and imp[0] == 'from':
            m = imp[1].split('.')[-1] if imp[1] else ''
            if m in self.modules:
                return self.resolve_const(m, imp[2], _depth + 1)
        raise KeyError(name)

    def fold(self, mod, n, _depth=0):
        if isinstance(n, ast.Constant):
            return n.value
        if isinstance(n, ast.Name):
            return self.resolve_const(mod, n.id, _depth)
        if isinstance(n, ast.BinOp):
            a = self.fold(mod, n.left, _depth)
            b = self.fold(mod, n.right, _depth)
            if isinstance(n.op, ast.Add):
                return a + b
            if isinstance(n.op, ast.Mult):
                return a * b
            if isinstance(n.op, ast.Sub):
                return a - b
            if isinstance(n.op, ast.Div):
                return a / b
            raise KeyError('op')
        if isinstance(n, ast.Tuple):
            return tuple(self.fold(mod, x, _depth) for x in n.elts)
        if isinstance(n, ast.UnaryOp) and isinstance(n.op, ast.USub):
            return -self.fold(mod, n.operand, _depth)
        raise KeyError(ast.dump(n)[:60])

    def relpath(self, path):
        return os.path.relpath(path, self.repo)

    def inventory(self):
        return {
            'repo': self.repo,
            'modules': sorted(self.modules),
            'classes': len(self.classes),
            'functions': self.nfuncs,
            'source_lines': sum(s.count('\n') for s in self.sources.values()),
        }


def func_qualname(cls, fn):
    return '%s.%s' % (cls, fn.name) if cls else fn.name


def norm(node):
    """normalised text of a construct (for finding keys: never line numbers)"""
    return ' '.join(ast.unparse(node).split())
