"""Entry points, symbolic initial states and path summaries."""
from .absint import Interp, Raised
from .model import AnalysisError
from .state import State
from .values import (NONE, Num, Str, SStr, Cat, Obj, TupleV, Star, Choice, Opaque, vkey, deps_of)


def _parser_attr(attr, maybe=False):
    def spec(I, st, o):
        src = st.heap.get((o.oid, '@parsed'), Opaque('unparsed(%s)' % o.oid))
        k = src.tag if isinstance(src, (SStr, Opaque)) else repr(vkey(src))
        v = SStr('%s(%s)' % (attr, k), deps_of(src))
        if maybe:
            return I.maybe(('null', v.tag), v)
        return v
    return spec


def _fw_dependent(attr, signs):
    """representation invariant of RetractionState: a firmware retraction has no length / feed rate (None), an
    E-only one has both; the initial record satisfies it, every handler path must preserve it (C09.R4)"""
    def spec(I, st, o):
        key = ('fld', o.oid, 'firmwareRetract')
        num = I.symbol('%s.%s' % (o.oid, attr), signs, kind='init', oid=o.oid, attr=attr, cls='RetractionState')
        return Choice([({key: frozenset([True])}, NONE), ({key: frozenset([False])}, num)])
    return spec


# (class, attribute) -> kind of the lazily materialised initial value.  Inferred kinds are cross-checked
# against the assignments found in the class (rules_common.check_fieldspec).
FIELDSPEC = {
    ('ExcludeRegionState', 'g90InfluencesExtruder'): 'bool',
    ('ExcludeRegionState', 'enteringExcludedRegionGcode'): 'list?:enterScript+',
    ('ExcludeRegionState', 'exitingExcludedRegionGcode'): 'list?:exitScript+',
    ('ExcludeRegionState', 'extendedExcludeGcodes'): 'opaque:extendedExcludeGcodes',
    ('ExcludeRegionState', 'atCommandActions'): 'opaque:atCommandActions',
    ('ExcludeRegionState', 'gcodeParser'): 'obj:GcodeParser',
    ('ExcludeRegionState', 'excludedRegions'): 'list:regions:Region',
    ('ExcludeRegionState', 'position'): 'obj:Position',
    ('ExcludeRegionState', 'feedRate'): 'num',
    ('ExcludeRegionState', 'feedRateUnitMultiplier'): 'num+',
    ('ExcludeRegionState', '_exclusionEnabled'): 'bool',
    ('ExcludeRegionState', 'excluding'): 'bool',
    ('ExcludeRegionState', 'excludeStartTime'): 'num',
    ('ExcludeRegionState', 'numExcludedCommands'): 'int0+',
    ('ExcludeRegionState', 'numCommands'): 'int0+',
    ('ExcludeRegionState', 'lastRetraction'): 'obj?:RetractionState',
    ('ExcludeRegionState', 'lastPosition'): 'obj:Position',
    ('ExcludeRegionState', 'pendingCommands'): 'map:pending',
    ('Position', 'X_AXIS'): 'obj:AxisPosition',
    ('Position', 'Y_AXIS'): 'obj:AxisPosition',
    ('Position', 'Z_AXIS'): 'obj:AxisPosition',
    ('Position', 'E_AXIS'): 'obj:AxisPosition',
    ('AxisPosition', 'current'): 'num',
    ('AxisPosition', 'homeOffset'): 'num',
    ('AxisPosition', 'offset'): 'num',
    ('AxisPosition', 'absoluteMode'): 'bool',
    ('AxisPosition', 'unitMultiplier'): 'num+',
    ('RetractionState', 'recoverExcluded'): 'bool',
    ('RetractionState', 'allowCombine'): 'bool',
    ('RetractionState', 'firmwareRetract'): 'bool',
    ('RetractionState', 'extrusionAmount'): _fw_dependent('extrusionAmount', frozenset([1])),
    ('RetractionState', 'feedRate'): _fw_dependent('feedRate', frozenset([-1, 0, 1])),
    ('RetractionState', 'originalCommand'): 'str:+',
    ('RectangularRegion', 'x1'): 'num', ('RectangularRegion', 'y1'): 'num',
    ('RectangularRegion', 'x2'): 'num', ('RectangularRegion', 'y2'): 'num',
    ('RectangularRegion', 'id'): 'opaque',
    ('CircularRegion', 'cx'): 'num', ('CircularRegion', 'cy'): 'num', ('CircularRegion', 'r'): 'num',
    ('CircularRegion', 'id'): 'opaque',
    ('GcodeHandlers', 'state'): 'obj:ExcludeRegionState',
    ('GcodeHandlers', 'gcodeParser'): 'obj:GcodeParser',
    ('ExcludedGcode', 'mode'): 'str',
    ('ExcludedGcode', 'gcode'): 'str:+',
    ('AtCommandAction', 'command'): 'str:+',
    ('AtCommandAction', 'action'): 'str',
    ('AtCommandAction', 'parameterPattern'): 'opaque',
    ('ExcludeRegionPlugin', '_activePrintJob'): 'bool',
    ('ExcludeRegionPlugin', 'clearRegionsAfterPrintFinishes'): 'bool',
    ('ExcludeRegionPlugin', 'mayShrinkRegionsWhilePrinting'): 'bool',
    ('ExcludeRegionPlugin', 'state'): 'obj:ExcludeRegionState',
    ('ExcludeRegionPlugin', 'gcodeHandlers'): 'obj:GcodeHandlers',
    ('ExcludeRegionPlugin', '_loggingMode'): 'str?',
    ('ExcludeRegionPlugin', '_pluginLoggingHandler'): 'opaque',
    ('StreamProcessor', 'gcodeHandlers'): 'obj:GcodeHandlers',
    ('StreamProcessor', 'commInstance'): 'obj:StreamProcessorComm',
    ('StreamProcessor', '_eol'): 'str?',
    ('StreamProcessorComm', 'bufferedCommands'): 'list:buffered',
    ('GcodeParser', 'source'): _parser_attr('source'),
    ('GcodeParser', 'text'): _parser_attr('text'),
    ('GcodeParser', 'eol'): _parser_attr('eol'),
    ('GcodeParser', 'comment'): _parser_attr('comment', True),
    ('GcodeParser', 'leadingWhitespace'): _parser_attr('leadingWhitespace'),
    ('GcodeParser', 'trailingWhitespace'): _parser_attr('trailingWhitespace'),
}

# result kinds of `.get(key)` on the two configuration maps (values are instances of package classes)
MAPGET = {
    'extendedExcludeGcodes': 'obj?:ExcludedGcode',
    'atCommandActions': 'list?:atEntries+:AtCommandAction',
}


def install_mapget(I):
    from .externals import materialise

    def mk(tag, spec):
        def h(I, st, f, args, kw, frame, node):
            holder = Obj('cfg:%s' % tag)
            st.cls.setdefault(holder.oid, '@cfg')
            k = args[0]
            name = 'get[%s]' % (k.tag if isinstance(k, (SStr, Opaque)) else repr(vkey(k)))
            key = (holder.oid, name)
            if key not in st.heap:
                old = I.fieldspec.get(('@cfg', name))
                I.fieldspec[('@cfg', name)] = spec
                st.heap[key] = materialise(I, st, holder, '@cfg', name)
                if old is None:
                    del I.fieldspec[('@cfg', name)]
            return [(st, st.heap[key])]
        return h
    for tag, spec in MAPGET.items():
        I.ext_handlers['%s.get' % tag] = mk(tag, spec)


MODULAR = [('GcodeHandlers', 'planArc'), ('GcodeHandlers', 'computeArcCenterOffsets')]


def make_interp(model, unroll=1, debug_logging=False, modular=True):
    I = Interp(model, dict(FIELDSPEC), unroll=unroll, debug_logging=debug_logging)
    install_mapget(I)

    def logging_mode_setter(I, st, recv, args, kw, frame, node):
        # log-file plumbing is outside every property: recorded as one opaque effect
        st.heap[(recv.oid, '_loggingMode')] = args[0]
        st.ev('ext', 'loggingMode.setter', tuple(args), (), frame.qual(), getattr(node, 'lineno', 0))
        return [(st, NONE)]
    I.summaries[('ExcludeRegionPlugin', 'loggingMode=')] = logging_mode_setter
    if modular:
        for key in MODULAR:
            I.modular[key] = True
    return I


class Path(object):
    """summary of one abstract path through an entry point"""
    __slots__ = ('entry', 'st', 'ret', 'pre', 'roots')

    def __init__(self, entry, st, ret, roots):
        self.entry = entry
        self.st = st
        self.ret = ret
        self.roots = roots

    def raised(self):
        return isinstance(self.ret, Raised)

    def dec(self, key, default=None):
        """decided value of a boolean decision key, or default when the path never consulted it"""
        d = self.st.dom.get(key)
        if d is None or len(d) != 1:
            return default
        return next(iter(d))

    def fld(self, oid, attr, default=None):
        return self.dec(('fld', oid, attr), default)

    def events(self, kind):
        return [e for e in self.st.trace if e[0] == kind]

    def final(self, oid, attr):
        """final value of a field (None if never materialised = unchanged and never read)"""
        return self.st.heap.get((oid, attr))

    def signature(self):
        decs = tuple(sorted((repr(k), tuple(sorted(map(repr, v)))) for k, v in self.st.dom.items() if k[0] != 'sgn'))
        return (self.entry, decs, repr(self.ret)[:200])


HANDLER_PREFIX = '_handle_'


def handler_names(model):
    ci = model.classes.get('GcodeHandlers')
    if ci is None:
        raise AnalysisError('anchor vanished: class GcodeHandlers')
    return sorted(n for n in ci.methods if n.startswith(HANDLER_PREFIX))


def prematerialise(I, st, o, seen=None):
    """materialise the whole symbolic object skeleton below `o` (no decision is taken by doing so)"""
    seen = seen if seen is not None else set()
    if o.oid in seen:
        return
    seen.add(o.oid)
    cls = st.cls[o.oid]
    for (c, attr), spec in list(I.fieldspec.items()):
        if c not in I.m.mro(cls) or callable(spec):
            continue
        key = (o.oid, attr)
        if key not in st.heap:
            st.heap[key] = I.materialise(st, o, cls, attr)
        v = st.heap[key]
        objs = [v] if isinstance(v, Obj) else [x for _c, x in v.alts if isinstance(x, Obj)] if isinstance(v, Choice) else []
        for x in objs:
            if x.oid in st.cls and st.cls[x.oid] in I.m.classes:
                prematerialise(I, st, x, seen)


def new_handlers_state(I=None):
    st = State()
    st.cls['H'] = 'GcodeHandlers'
    st.cls['H.state'] = 'ExcludeRegionState'
    st.heap[('H', 'state')] = Obj('H.state')
    if I is not None:
        prematerialise(I, st, Obj('H'))
    return st, Obj('H'), Obj('H.state')


def unknown_subcode(I):
    """the sub code argument of the hooks: None for most commands; text when OctoPrint's queuing hook passes it on, an
    integer when the offline stream processor passes the parser's own sub code"""
    from .values import Choice
    text = {('hook', 'subcode-is-text'): frozenset([True])}
    number = {('hook', 'subcode-is-text'): frozenset([False])}
    n = Num.sym('arg:subcode')
    n.isint = True
    return I.maybe(('null', 'arg:subcode'), Choice([(text, SStr('SUBCODE')), (number, n)]))


def run_gcode(I, gcode, prep=None, subcode=None):
    """all abstract paths of GcodeHandlers.handleGcode(CMD, gcode) from a fully symbolic state"""
    st, H, S = new_handlers_state(I)
    if prep is not None:
        prep(I, st, H, S)
    cmd = SStr('CMD', nonempty=True)
    # the sub code OctoPrint passes along is unknown (None for most commands, an integer for G38.2 and the like)
    sub = unknown_subcode(I) if subcode is None else subcode
    res = I.run_method(st, 'GcodeHandlers', 'handleGcode', H, [cmd, Str(gcode), sub])
    return [Path('handleGcode(%s)' % gcode, s, v, {'H': H, 'S': S}) for (s, v) in res]


def gcodes_to_analyse(model):
    """every code with a dedicated handler plus a generic unhandled code"""
    return [n[len(HANDLER_PREFIX):] for n in handler_names(model)] + ['M999']


def run_state_method(I, name, args, restrict=None, prep=None):
    """paths of ExcludeRegionState.<name>(*args) from a fully symbolic state (optionally restricted)"""
    st, H, S = new_handlers_state(I)
    for k, v in (restrict or {}).items():
        st.restrict(k, frozenset(v))
    if prep is not None:
        prep(I, st, H, S)
    res = I.run_method(st, 'ExcludeRegionState', name, S, args)
    return [Path('%s' % name, s, v, {'H': H, 'S': S}) for (s, v) in res]


def new_plugin_state(I):
    """plugin object whose state / handlers share one ExcludeRegionState, as initialize() builds them"""
    st, H, S = new_handlers_state(I)
    st.cls['P'] = 'ExcludeRegionPlugin'
    st.heap[('P', 'state')] = S
    st.heap[('P', 'gcodeHandlers')] = H
    prematerialise(I, st, Obj('P'))
    return st, Obj('P'), H, S


def run_plugin_method(I, name, args, kw=None, restrict=None, prep=None):
    st, P, H, S = new_plugin_state(I)
    for k, v in (restrict or {}).items():
        st.restrict(k, frozenset(v))
    if prep is not None:
        prep(I, st, P, H, S)
    res = I.run_method(st, 'ExcludeRegionPlugin', name, P, args, kw or {})
    return [Path('%s' % name, s, v, {'P': P, 'H': H, 'S': S}) for (s, v) in res]


def axis_logical(I, axis_oid):
    """the logical coordinate a firmware applying `native = logical*u + offset + homeOffset` would report
    for the tracked native position of the axis: (current - offset - homeOffset) / unitMultiplier"""
    from .poly import Poly
    cur = Poly.sym('%s.current' % axis_oid)
    off = Poly.sym('%s.offset' % axis_oid)
    home = Poly.sym('%s.homeOffset' % axis_oid)
    u = Poly.sym('%s.unitMultiplier' % axis_oid)
    return (cur - off - home).div(u)
