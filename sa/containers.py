"""Abstract lists (sequences with Star runs) and ordered maps (kv items with Star runs)."""
import ast

from .values import (NONE, Num, Str, SStr, Cat, Obj, TupleV, Star, Choice, Opaque, ExtFn, IterV, vkey, deps_of)
from .absint import Raised, Unsupported, BOOL, _norm


def _fresh_elem(I, st, star, idx, hint=''):
    """a generic element standing for one member of a Star run"""
    if star.cls is not None:
        if star.cls.startswith('@enum:'):
            # (index, element) of the underlying run; the element is the one a subscript with that index would read
            base = Star(star.tag, star.cls[6:] or None, star.nonempty)
            ix = I.symbol('enum(%s)[%s]%s' % (star.tag, idx, hint), frozenset([0, 1]))
            ix = Num(ix.p, True)
            return TupleV([ix, _fresh_elem(I, st, base, repr(ix.p))])
        if star.cls.startswith('@'):
            return Opaque('%s[%s]%s' % (star.tag, idx, hint))
        oid = '%s[%s]%s' % (star.tag, idx, hint)
        if oid not in st.cls:
            st.cls[oid] = star.cls
        return Obj(oid)
    return Opaque('%s[%s]%s' % (star.tag, idx, hint))


def const_index(v):
    if isinstance(v, Num) and v.is_const() and v.p.const_value().denominator == 1:
        return int(v.p.const_value())
    return None


def getitem(I, st, env, e, frame):
    from .exprs import seq_eval
    out = []
    if isinstance(e.slice, ast.Slice):
        sl = e.slice
        parts = [x for x in (sl.lower, sl.upper, sl.step) if x is not None]
        for (s2, vs) in seq_eval(I, st, env, [e.value] + parts, frame, forced=True):
            if isinstance(vs, Raised):
                out.append((s2, vs))
                continue
            base = vs[0]
            seq = None
            if isinstance(base, TupleV):
                seq = base.elems
            elif isinstance(base, Obj) and base.oid in s2.seqs:
                seq = s2.seqs[base.oid]
            if seq is not None and all(const_index(x) is not None for x in vs[1:]) and not any(isinstance(x, Star) for x in seq):
                it0 = iter(vs[1:])
                lo0 = const_index(next(it0)) if sl.lower is not None else None
                hi0 = const_index(next(it0)) if sl.upper is not None else None
                st0 = const_index(next(it0)) if sl.step is not None else None
                part = tuple(seq)[lo0:hi0:st0]
                if isinstance(base, TupleV):
                    out.append((s2, TupleV(part)))
                else:
                    noid = s2.new_oid('list', 'slice@%s' % frame.fn.name)
                    s2.seqs[noid] = tuple(part)
                    out.append((s2, Obj(noid)))
                continue
            if isinstance(base, Str) and all(const_index(x) is not None for x in vs[1:]):
                it = iter(vs[1:])
                lo = const_index(next(it)) if sl.lower is not None else None
                hi = const_index(next(it)) if sl.upper is not None else None
                stp = const_index(next(it)) if sl.step is not None else None
                out.append((s2, Str(base.s[lo:hi:stp])))
            elif isinstance(base, (Str, SStr, Cat)):
                def bnd(x):
                    return '' if x is None else (repr(x.p) if isinstance(x, Num) else repr(vkey(x)))
                it2 = iter(vs[1:])
                lo2 = next(it2) if sl.lower is not None else None
                hi2 = next(it2) if sl.upper is not None else None
                st2 = next(it2) if sl.step is not None else None
                tagb = base.tag if isinstance(base, SStr) else repr(vkey(base))
                out.append((s2, SStr('slice(%s)[%s:%s%s]' % (tagb, bnd(lo2), bnd(hi2), '' if st2 is None else ':' + bnd(st2)),
                                     deps_of(base))))
            elif base is NONE:
                out.append((s2, Raised('TypeError', 'None is not subscriptable', (frame.qual(), e.lineno))))
            else:
                out.append((s2, Opaque('slice(%s)' % (vkey(base),), deps_of(base))))
        return out
    for (s2, vs) in seq_eval(I, st, env, [e.value, e.slice], frame, forced=True):
        if isinstance(vs, Raised):
            out.append((s2, vs))
            continue
        base, idx = vs
        where = (frame.qual(), e.lineno)
        if base is NONE:
            out.append((s2, Raised('TypeError', 'None is not subscriptable: %s' % _norm(e), where)))
            continue
        elems = None
        if isinstance(base, TupleV):
            elems = base.elems
        elif isinstance(base, Obj) and base.oid in s2.seqs:
            elems = s2.seqs[base.oid]
        if elems is not None:
            ci = const_index(idx)
            if ci is not None and not any(isinstance(x, Star) for x in elems):
                if -len(elems) <= ci < len(elems):
                    out.append((s2, elems[ci]))
                else:
                    s2.ev('partial', 'index', frame.qual(), _norm(e), e.lineno)
                    out.append((s2, Raised('IndexError', _norm(e), where)))
                continue
            if ci is not None and ci >= 0 and not any(isinstance(x, Star) for x in elems[:ci + 1]):
                out.append((s2, elems[ci]))
                continue
            # symbolic index into a sequence with Star runs: generic element of the (single) run
            stars = [x for x in elems if isinstance(x, Star)]
            if len(stars) == 1 and len(elems) == 1:
                out.append((s2, _fresh_elem(I, s2, stars[0], vkey(idx) if not isinstance(idx, Num) else repr(idx.p))))
                continue
            out.append((s2, Opaque('item(%s,%s)' % (vkey(base), vkey(idx)), deps_of(base) | deps_of(idx))))
            continue
        if isinstance(base, Obj) and base.oid in s2.maps:
            for (s3, r) in map_lookup(I, s2, base, idx, frame):
                if r is None:
                    out.append((s3, Raised('KeyError', _norm(e), where)))
                else:
                    out.append((s3, r))
            continue
        if isinstance(base, Str):
            ci = const_index(idx)
            if ci is not None:
                if -len(base.s) <= ci < len(base.s):
                    out.append((s2, Str(base.s[ci])))
                else:
                    out.append((s2, Raised('IndexError', _norm(e), where)))
                continue
        if isinstance(base, (Opaque, SStr, Cat, Str)):
            tag = base.tag if isinstance(base, (Opaque, SStr)) else repr(vkey(base))
            kidx = idx.s if isinstance(idx, Str) else (repr(idx.p) if isinstance(idx, Num) else repr(vkey(idx)))
            out.append((s2, Opaque('%s[%s]' % (tag, kidx), deps_of(base) | {tag})))
            continue
        raise Unsupported('subscript of %r in %s' % (base, frame.qual()))
    return out


def setitem(I, st, env, t, v, frame):
    out = []
    from .exprs import seq_eval
    for (s2, vs) in seq_eval(I, st, env, [t.value, t.slice], frame, forced=True):
        e2 = env if s2 is st else dict(env)
        if isinstance(vs, Raised):
            out.append((s2, e2, ('raise', vs)))
            continue
        base, idx = vs
        if isinstance(base, Obj) and base.oid in s2.maps:
            for s3 in map_set(I, s2, base, idx, v, frame):
                out.append((s3, e2 if s3 is s2 else dict(e2), None))
            continue
        if isinstance(base, Obj) and base.oid in s2.seqs:
            elems = list(s2.seqs[base.oid])
            ci = const_index(idx)
            if ci is not None and not any(isinstance(x, Star) for x in elems) and -len(elems) <= ci < len(elems):
                elems[ci] = v
                s2.seqs[base.oid] = tuple(elems)
            s2.ev('seq-set', base.oid, idx, v, frame.qual())
            out.append((s2, e2, None))
            continue
        if base is NONE:
            out.append((s2, e2, ('raise', Raised('TypeError', 'None does not support item assignment',
                                                 (frame.qual(), t.lineno)))))
            continue
        s2.ev('ext-setitem', vkey(base), vkey(idx), v, frame.qual())
        out.append((s2, e2, None))
    return out


def delitem(I, st, env, t, frame):
    out = []
    from .exprs import seq_eval
    if isinstance(t.slice, ast.Slice) and t.slice.lower is None and t.slice.upper is None and t.slice.step is None:
        # del x[:] empties the list in place (every alias sees it)
        for (s2, base) in I.evalf(st, env, t.value, frame):
            e2 = env if s2 is st else dict(env)
            if isinstance(base, Raised):
                out.append((s2, e2, ('raise', base)))
            elif isinstance(base, Obj) and base.oid in s2.seqs:
                s2.seqs[base.oid] = ()
                s2.ev('seq-clear', base.oid, frame.qual())
                out.append((s2, e2, None))
            else:
                s2.ev('ext-delitem', vkey(base), 'all', frame.qual())
                out.append((s2, e2, None))
        return out
    for (s2, vs) in seq_eval(I, st, env, [t.value, t.slice], frame, forced=True):
        e2 = env if s2 is st else dict(env)
        if isinstance(vs, Raised):
            out.append((s2, e2, ('raise', vs)))
            continue
        base, idx = vs
        if isinstance(base, Obj) and base.oid in s2.seqs:
            s2.ev('seq-del', base.oid, idx, frame.qual())
            out.append((s2, e2, None))
            continue
        if isinstance(base, Obj) and base.oid in s2.maps:
            for (s3, _r) in map_pop(I, s2, base, idx, None, frame):
                out.append((s3, e2 if s3 is s2 else dict(e2), None))
            continue
        s2.ev('ext-delitem', vkey(base), vkey(idx), frame.qual())
        out.append((s2, e2, None))
    return out


# ---------------------------------------------------------------------- ordered maps
def _find(I, st, m, key, frame):
    """[(state, index | None)] of the kv item whose key equals `key` (forks on unknown Star contents)"""
    from .exprs import equals
    items = st.maps[m.oid]

    def rec(s, i):
        its = s.maps[m.oid]
        if i >= len(its):
            return [(s, None)]
        it = its[i]
        if it[0] == 'opt':
            # an entry that exists only when a decision key has one of the allowed values (a word of the command collected
            # into a dict): a look-up of its key decides the question on this path and turns the entry into a plain one
            res = []
            for (s2, eq) in equals(I, s, key, it[1], frame):
                if not eq:
                    res.extend(rec(s2, i + 1))
                    continue
                from .loops import PSTATUS
                for (s3, there) in I.decide(s2, it[3], PSTATUS, it[4]):
                    its3 = list(s3.maps[m.oid])
                    if there:
                        its3[i] = ('kv', it[1], it[2])
                        s3.maps[m.oid] = tuple(its3)
                        res.append((s3, i))
                    else:
                        del its3[i]
                        s3.maps[m.oid] = tuple(its3)
                        res.extend(rec(s3, i))
            return res
        if it[0] == 'kv':
            res = []
            for (s2, eq) in equals(I, s, key, it[1], frame):
                if eq:
                    res.append((s2, i))
                else:
                    res.extend(rec(s2, i + 1))
            return res
        # Star run: may contain the key -> split the run
        tag = it[1]
        res = []
        for (s2, has) in I.decide(s, ('mapstar-has', tag, vkey(key)), BOOL, frozenset([True])):
            if has:
                its2 = list(s2.maps[m.oid])
                val = Opaque('%s[%s]' % (tag, vkey(key),))
                its2[i:i + 1] = [('star', tag + '<'), ('kv', key, val), ('star', tag + '>')]
                s2.maps[m.oid] = tuple(its2)
                res.append((s2, i + 1))
            else:
                res.extend(rec(s2, i + 1))
        return res
    return rec(st, 0)


def _lazy_get(I, st, m, key, default):
    """d.get(<literal>, default) on a map whose keys are all literal strings and where the key names an optional entry:
    the result is a lazily decided value (no fork, the map stays as it is)"""
    from .values import Choice
    from .loops import PSTATUS
    if not isinstance(key, Str):
        return None
    hit = None
    for it in st.maps[m.oid]:
        if it[0] == 'star' or not isinstance(it[1], Str):
            return None
        if it[1].s == key.s:
            if hit is not None:
                return None
            hit = it
    if hit is None or hit[0] != 'opt':
        return None
    cur = st.dom.get(hit[3], PSTATUS)
    yes, no = cur & hit[4], cur - hit[4]
    if not no:
        return hit[2]
    if not yes:
        return default
    return Choice([({hit[3]: yes}, hit[2]), ({hit[3]: no}, default)])


def map_contains(I, st, m, key, frame):
    return [(s, idx is not None) for (s, idx) in _find(I, st, m, key, frame)]


def map_lookup(I, st, m, key, frame):
    return [(s, None if idx is None else s.maps[m.oid][idx][2]) for (s, idx) in _find(I, st, m, key, frame)]


def map_set(I, st, m, key, value, frame):
    out = []
    for (s, idx) in _find(I, st, m, key, frame):
        items = list(s.maps[m.oid])
        if idx is None:
            items.append(('kv', key, value))
            s.ev('map-append', m.oid, key, value, frame.qual())
        else:
            items[idx] = ('kv', key, value)
            s.ev('map-replace', m.oid, key, value, frame.qual())
        s.maps[m.oid] = tuple(items)
        out.append(s)
    return out


def map_pop(I, st, m, key, default, frame):
    """[(state, value | None-if-missing-without-default)]"""
    out = []
    for (s, idx) in _find(I, st, m, key, frame):
        if idx is None:
            out.append((s, default))
        else:
            items = list(s.maps[m.oid])
            val = items[idx][2]
            del items[idx]
            s.maps[m.oid] = tuple(items)
            s.ev('map-remove', m.oid, key, frame.qual())
            out.append((s, val))
    return out


def map_items(I, st, m, what='items'):
    elems = []
    for it in st.maps[m.oid]:
        if it[0] == 'opt':
            from .values import Opt
            elems.append(Opt(it[3], it[4], TupleV([it[1], it[2]]) if what == 'items' else (it[1] if what == 'keys' else it[2])))
            continue
        if it[0] == 'kv':
            if what == 'items':
                elems.append(TupleV([it[1], it[2]]))
            elif what == 'keys':
                elems.append(it[1])
            else:
                elems.append(it[2])
        else:
            elems.append(Star(it[1], '@map' + what))
    return IterV(elems, 'map.' + what)


# ---------------------------------------------------------------------- methods of list / dict objects
def call_container_method(I, st, recv, name, args, kw, frame, node):
    where = (frame.qual(), node.lineno)
    if recv.oid in st.seqs:
        elems = st.seqs[recv.oid]
        if name == 'append' or (name == 'add' and 'set@' in recv.oid):
            st.seqs[recv.oid] = elems + (args[0],)
            st.ev('seq-append', recv.oid, args[0], frame.qual())
            return [(st, NONE)]
        if name == 'extend':
            out = []
            for (s2, a) in I.force(st, args[0]):
                if a is NONE:
                    out.append((s2, Raised('TypeError', 'extend(None)', where)))
                    continue
                from .exprs import seq_elements
                add = tuple(seq_elements(I, s2, a))
                s2.seqs[recv.oid] = s2.seqs[recv.oid] + add
                s2.ev('seq-extend', recv.oid, a, frame.qual())
                out.append((s2, NONE))
            return out
        if name == 'insert':
            ci = const_index(args[0])
            if ci == 0:
                st.seqs[recv.oid] = (args[1],) + elems
            else:
                st.seqs[recv.oid] = elems + (Star('inserted'),)
            st.ev('seq-insert', recv.oid, args[1], frame.qual())
            return [(st, NONE)]
        if name == 'clear':
            st.seqs[recv.oid] = ()
            st.ev('seq-clear', recv.oid, frame.qual())
            return [(st, NONE)]
        if name == 'pop':
            st.ev('seq-pop', recv.oid, frame.qual())
            return [(st, Opaque('pop(%s)' % recv.oid))]
        if name in ('index', 'count'):
            return [(st, Opaque('%s(%s)' % (name, recv.oid)))]
        if name in ('remove', 'sort', 'reverse'):
            st.ev('seq-' + name, recv.oid, frame.qual())
            st.seqs[recv.oid] = (Star('%s(%s)' % (name, recv.oid)),)
            return [(st, NONE)]
        raise Unsupported('list.%s in %s' % (name, frame.qual()))
    # dict
    if name == 'get':
        default = args[1] if len(args) > 1 else kw.get('default', NONE)
        lazy = _lazy_get(I, st, recv, args[0], default)
        if lazy is not None:
            return [(st, lazy)]
        return [(s, default if r is None else r) for (s, r) in map_lookup(I, st, recv, args[0], frame)]
    if name == 'pop':
        if len(args) > 1:
            return map_pop(I, st, recv, args[0], args[1], frame)
        return [(s, Raised('KeyError', _norm(node), where) if r is None else r)
                for (s, r) in map_pop(I, st, recv, args[0], None, frame)]
    if name in ('items', 'keys', 'values'):
        return [(st, map_items(I, st, recv, name))]
    if name == 'clear':
        st.maps[recv.oid] = ()
        st.ev('map-clear', recv.oid, frame.qual())
        return [(st, NONE)]
    if name == 'copy':
        oid = st.new_oid(st.cls[recv.oid], 'copy')
        st.maps[oid] = st.maps[recv.oid]
        return [(st, Obj(oid))]
    if name == 'setdefault':
        out = []
        for (s, r) in map_lookup(I, st, recv, args[0], frame):
            if r is None:
                for s2 in map_set(I, s, recv, args[0], args[1] if len(args) > 1 else NONE, frame):
                    out.append((s2, args[1] if len(args) > 1 else NONE))
            else:
                out.append((s, r))
        return out
    if name == 'update':
        st.ev('map-update', recv.oid, frame.qual())
        st.maps[recv.oid] = st.maps[recv.oid] + (('star', 'update(%s)' % recv.oid),)
        return [(st, NONE)]
    raise Unsupported('dict.%s in %s' % (name, frame.qual()))
