"""C09 - filtering is total and protocol-conformant."""
from .handlers import run_path_rules
from .entries import gcodes_to_analyse
from .pathfacts import Facts, live_alts, element_nonempty, classify

PROP = 'C09'


def declare(c):
    c.rule('C09.R1', 'result of handleGcode on every abstract path is None, IGNORE or a non-empty list of '
                     'non-empty commands', floor=40)
    c.rule('C09.R3', 'no abstract path of a hook entry point ends in an exception', floor=40)
    c.rule('C09.R4', 'the retraction record keeps its representation invariant on every path (firmware <=> no length / feed '
                     'rate): later handlers rely on it when they do arithmetic on those fields', floor=10)


def path_rules(col, gcode, paths, I, own=True):
    if own:
        declare(col)
    for p in paths:
        f = Facts(p, I)
        sig = (gcode, f.describe())
        col.instance('C09.R3', sig)
        if f.raised:
            r = p.ret
            where = r.where or ('?', 0)
            col.report('C09.R3', where[0], '%s: %s' % (r.exc, r.info),
                       'handleGcode(%s) can raise %s on the path [%s]' % (gcode, r.exc, '; '.join(f.decisions()[-8:])),
                       line=where[1], detail={'entry': p.entry, 'decisions': f.decisions()})
            continue
        from .values import Obj, Num, Choice, NONE as _NONE
        for o in f.final('H.state', 'lastRetraction'):
            if not isinstance(o, Obj):
                continue
            col.instance('C09.R4', (gcode, o.oid.split('#')[0]))
            fwkey = ('fld', o.oid, 'firmwareRetract')
            for fw in live_alts(p.st, p.st.heap.get((o.oid, 'firmwareRetract'))):
                if fw not in (True, False):
                    continue
                # when the flag is still the initial (undecided) one, evaluate the other fields under the same assumption
                assume = {fwkey: frozenset([fw])} if p.st.dom.get(fwkey) is None else None
                for attr in ('extrusionAmount', 'feedRate'):
                    val = p.st.heap.get((o.oid, attr))
                    if val is None:
                        # never read or written on this path: still the initial value, which follows the INITIAL flag
                        init = p.st.dom.get(fwkey, frozenset([True, False]))
                        fwval = p.st.heap.get((o.oid, 'firmwareRetract'))
                        flag_rewritten = any(e[0] == 'write' and e[4] == o.oid and e[2] == 'firmwareRetract' for e in p.st.trace)
                        if not flag_rewritten:
                            continue
                        val = Choice([({fwkey: frozenset([True])}, _NONE), ({fwkey: frozenset([False])}, Num.const(1))])
                        assume = None
                    for x in live_alts(p.st, val, assume):
                        if (x is _NONE) != fw:
                            col.report('C09.R4', 'RetractionState.combine' if 'combine' in str([e for e in p.st.trace if e[0] == 'call' and e[2] == 'combine']) else 'ExcludeRegionState.recordRetraction',
                                       'retraction record with firmwareRetract=%s and %s=%s' % (fw, attr, 'None' if x is _NONE else 'a number'),
                                       'a path of %s leaves the retraction record in a state no constructor allows; a later recovery '
                                       'does arithmetic on the missing value and raises TypeError' % gcode,
                                       detail={'entry': p.entry, 'decisions': f.decisions()})
        col.instance('C09.R1', sig)
        ok = f.kind in ('none', 'ignore')
        why = ''
        if f.kind == 'list':
            ok = True
            definite = False
            for e in f.elems:
                for a in live_alts(p.st, e):
                    if not element_nonempty(a):
                        ok = False
                        why = 'element %s may be empty' % classify(a)
                    from .values import Star
                    if not isinstance(a, Star) or a.nonempty:
                        definite = True
            if not f.elems or not definite:
                ok = False
                why = 'list may be empty'
        elif not ok:
            why = 'unexpected result value %r' % (p.ret,)
        if not ok:
            col.report('C09.R1', 'GcodeHandlers.handleGcode', '%s -> %s' % (gcode, f.describe()),
                       'result violates the hook protocol: %s' % why,
                       detail={'entry': p.entry, 'decisions': f.decisions()})
        if f.kind == 'list':
            col.sample({'entry': p.entry, 'result': f.describe(), 'decisions': f.decisions()[-6:]})


def run(ctx, tier):
    declare(ctx)
    gcodes = gcodes_to_analyse(ctx.model)
    run_path_rules(ctx, __name__, 'path_rules', gcodes, unroll=2 if tier == 'thorough' else 1,
                   debug_logging=(tier == 'thorough'))
    # the region predicates are evaluated as opaque tests on the handler paths: that they answer (and never raise) for every
    # point is decided on their own bodies (C17.R1 / R2; a float power, for example, raises OverflowError where a product is inf)
    from . import rules_c17
    from .entries import make_interp
    ctx.rule('C17.R1', 'C17: containsPoint is exactly the closed rectangle / closed disc test - and answers for every point', floor=2)
    ctx.rule('C17.R2', 'C17: the constructors normalise the corners / keep the radius and never raise on numbers', floor=2)
    I17 = make_interp(ctx.model, modular=False)
    I17.merge_ifs = False
    rules_c17.point_rules(ctx, I17)
    rules_c17.ctor_rules(ctx, I17)
    ctx.assume('axes are homed (tracked positions are numbers, not None) - as in the property quantifier')
    ctx.assume('GcodeParser behaves as its verified summary (C18/C19 rules)')
