"""C18 - the parser is lossless and its normalisation is stable (language facts + abstract interpretation of parse)."""
import ast
import re

from . import rx
from .entries import make_interp
from .state import State
from .pathfacts import live_alts
from .values import NONE, Num, Str, SStr, Cat, Obj, TupleV, Opaque, Choice, IterV, vkey
from .absint import Raised, Frame
from .poly import Poly
from .model import AnalysisError
from .exprs import getattr_value

PROP = 'C18'
GP = 'GcodeParser'
LINE_FIELDS = ('source', 'offset', 'length', 'leadingWhitespace', 'text', '_rawChecksum', 'trailingWhitespace', 'comment',
               'eol', '_checksum', '_lineNumber', '_type', '_code', '_gcode', '_subCode', '_parameters',
               '_parameterDict', '_commandString')


def declare(c):
    c.rule('C18.R1', 'totality: from any offset of any text some prefix matches the line regex (parse cannot assert)', floor=1)
    c.rule('C18.R2', 'progress: the line regex matches the empty string only at the end of the text', floor=1)
    c.rule('C18.R3', 'tiling: the match is the concatenation of capture groups 1, 2, 11, 12?, 13 and group 2 ends with '
                     '"*" + group 10 when a checksum is present', floor=2)
    c.rule('C18.R4', 'fullText joins exactly the attributes bound to the tiling groups, in order', floor=2)
    c.rule('C18.R7', 'checksum bookkeeping on every path of parse: when the checksum group took part in the match, text is group 2 '
                     'without its "*"+checksum tail, rawChecksum is "*"+group 10 and checksum is int(group 10) - whatever the '
                     'number is; otherwise text is group 2 and both are None (validate() checksums leadingWhitespace + text)', floor=4)
    c.rule('C18.R8', 'parse(text) reads the text it is given from offset 0, whatever the parser held before (also the same text twice)', floor=2)
    c.rule('C18.R5', 'freshness: every attribute a reader uses is re-assigned by every parse (no value of the previous '
                     'line survives)', floor=10)
    c.rule('C18.R6', 'the text a rendered checksum is computed over is the text validate() checks it against', floor=1)
    c.rule('C18.R7', 'parseLines advances by the match length and parses until the offset reaches the end', floor=2)


def parser_interp(model, unroll=2):
    I = make_interp(model, unroll=unroll, modular=False)
    for k in list(I.summaries):
        if k[0] == GP:
            del I.summaries[k]
    I.fieldspec = {k: v for k, v in I.fieldspec.items() if k[0] != GP}
    return I


def stale_state():
    st = State()
    st.cls['GP'] = GP
    for a in LINE_FIELDS:
        st.heap[('GP', a)] = Opaque('STALE.' + a)
    return st


def frame():
    return Frame(GP, GP, ast.parse('def f(): pass').body[0], 0)


def pattern(model, name):
    try:
        return model.resolve_const(GP, name)
    except KeyError:
        raise AnalysisError('anchor vanished: GcodeParser.%s' % name)


def compiled_pattern(model, rname):
    node = model.consts.get((GP, rname))
    if not (isinstance(node, ast.Call) and node.args):
        raise AnalysisError('anchor vanished: GcodeParser.%s' % rname)
    try:
        return model.fold(GP, node.args[0])
    except (KeyError, TypeError) as ex:
        raise AnalysisError('cannot fold the pattern of %s: %s' % (rname, ex))


def language_rules(ctx):
    rx.prepare(ctx.model)
    pat = compiled_pattern(ctx.model, 'REGEX_GCODE_LINE')
    ok, cex, nstates = rx.prefix_total(pat)
    ctx.instance('C18.R1', ('dfa-states', nstates))
    ctx.extra['line_regex_dfa_states'] = nstates
    if not ok:
        ctx.report('C18.R1', 'GcodeParser.parse', 'no prefix of "%s" matches' % rx.show(cex),
                   'texts of the shape "%s" (then end of text) have no matching prefix: parse() raises AssertionError '
                   'and parseLines stops' % rx.show(cex))
    ctx.instance('C18.R2', 'empty-match')
    if rx.matches_empty_without_end(pat):
        ctx.report('C18.R2', 'GcodeParser.parseLines', 'empty match before the end',
                   'the line regex can match the empty string in the middle of the text: parseLines would loop forever')
    items = rx.top_level_items(pat)
    ctx.instance('C18.R3', tuple((k, g) for k, g, _ in items))
    want = [('group', 1), ('group', 2), ('group', 11), ('group?', 12), ('group', 13)]
    got = [(k, g) for k, g, cons in items if cons]
    if got != want:
        ctx.report('C18.R3', 'GcodeParser.REGEX_GCODE_LINE', 'top-level structure %s' % got,
                   'the text consumed by a match is not the concatenation of capture groups 1, 2, 11, 12?, 13: '
                   'fullText cannot reproduce the line')
    ctx.instance('C18.R3', 'tail')
    if not rx.group_tail(pat, 2, 10):
        ctx.report('C18.R3', 'GcodeParser.REGEX_GCODE_LINE', 'checksum is not the tail of group 2',
                   'parse() strips "*"+checksum from the end of group 2, which is only right if that is where the checksum is')
    ctx.sample({'rule': 'C18.R1', 'dfa_states': nstates, 'alphabet_classes': len(rx.SIGMA)})


def reader_attrs(model):
    """attributes of the parser read by its reader methods (loads of self.<attr>)"""
    ci = model.classes[GP]
    readers = ['fullText', 'stringify', 'validate', 'commandString', 'parameterItems', 'parameterDict', 'lineNumber', 'type',
               'code', 'gcode', 'subCode', 'parameters', 'checksum', 'rawChecksum', '__str__']
    out = set()
    for name in readers:
        fn = ci.props.get(name) or ci.methods.get(name)
        if fn is None:
            continue
        for n in ast.walk(fn):
            if isinstance(n, ast.Attribute) and isinstance(n.value, ast.Name) and n.value.id == 'self' and \
                    isinstance(n.ctx, ast.Load):
                if n.attr in ci.methods or n.attr in ci.props:
                    continue
                out.add(n.attr)
    return out


def group_of(v):
    """'g<n>' tags -> description of what a fullText part is"""
    if v is NONE:
        return None
    if isinstance(v, SStr):
        m = re.search(r'\.g(\d+)$', v.tag)
        if m:
            return 'g%s' % m.group(1)
        m = re.match(r'slice\(.*\.g(\d+)\)\[:(.*)\]$', v.tag)
        if m:
            return 'g%s[:%s]' % (m.group(1), m.group(2))
    if isinstance(v, Cat):
        parts = []
        for p in v.parts:
            parts.append(p if isinstance(p, str) else (group_of(p[1]) or '?'))
        return ''.join(parts)
    if isinstance(v, Str):
        return repr(v.s)
    return '?%r' % (v,)


def parse_rules(ctx, I, r5='C18.R5', freshness_only=False):
    fr = frame()
    st = stale_state()
    res = I.run_method(st, GP, 'parse', Obj('GP'), [SStr('SRC')])
    ok_paths = [(s, v) for (s, v) in res if not isinstance(v, Raised)]
    for (s, v) in res:
        if isinstance(v, Raised) and v.exc != 'AssertionError':
            ctx.report(r5, (v.where or ('GcodeParser.parse', 0))[0], 'parse raises %s: %s' % (v.exc, v.info),
                       'parsing a matched line can raise (None handling of an optional group)')
    if not ok_paths:
        raise AnalysisError('parse has no normal path')
    readers = reader_attrs(ctx.model)
    for (s, v) in ok_paths:
        if not (isinstance(v, Obj) and v.oid == 'GP'):
            ctx.report(r5, 'GcodeParser.parse', 'return value %r' % (v,), 'parse must return the parser itself')
        for a in sorted(readers):
            ctx.instance(r5, a)
            val = s.heap.get(('GP', a))
            for x in (live_alts(s, val) if val is not None else [Opaque('STALE.' + a)]):
                if isinstance(x, Opaque) and x.tag.startswith('STALE.'):
                    # `if self.x != value: self.x = value`: on the path where they compared equal the old value IS the new one
                    if any(k[0] in ('eq', 'isnone') and x.tag in repr(k) and v2 == frozenset([True]) for k, v2 in s.dom.items()):
                        continue
                    ctx.report(r5, 'GcodeParser.parse', 'attribute %s keeps the previous value' % a,
                               'parse() does not re-assign %s on every path: readers (fullText, stringify, validate, ...) '
                               'would see the value of an earlier line' % a)
        if freshness_only:
            continue
        checksum_bookkeeping(ctx, I, s)
        # R4 fullText
        saved_merge = getattr(I, 'merge_ifs', True)
        I.merge_ifs = False         # the conditional expressions of fullText decide the group guards: one path per combination
        try:
            ft_results = getattr_value(I, s.clone(), Obj('GP'), 'fullText', fr)
        finally:
            I.merge_ifs = saved_merge
        for (s2, ft) in ft_results:
            ctx.instance('C18.R4', repr(ft)[:80])
            if not isinstance(ft, (Cat, SStr, Str)):
                ctx.report('C18.R4', 'GcodeParser.fullText', 'value %r' % (ft,), 'fullText is not a string concatenation')
                continue
            seqs = [[]]
            for part in (ft.parts if isinstance(ft, Cat) else [('fmt', ft, '', 'raw')]):
                if isinstance(part, str):
                    seqs = [q + [part] for q in seqs]
                    continue
                nxt = []
                for x in live_alts(s2, part[1]):
                    g = group_of(x)
                    for q in seqs:
                        nxt.append(q + ([g] if g is not None else []))
                seqs = nxt
            has_ck = s2.heap.get(('GP', '_checksum')) is not NONE
            for q in seqs:
                flat = ''.join(q)
                flat_ok = re.match(r"^g1(g2|g2\[:-1-len\([^\]]*g10\)\]\*g10)g11(g12)?g13$", flat.replace(' ', ''))
                if not flat_ok:
                    ctx.report('C18.R4', 'GcodeParser.fullText', 'parts %s' % flat,
                               'fullText does not join leading whitespace, text, "*"+checksum, trailing whitespace, comment '
                               'and eol (groups 1, 2, 10, 11, 12, 13) in that order')
    ctx.sample({'rule': r5, 'reader_attributes': sorted(readers), 'parse_paths': len(ok_paths)})
    return ok_paths


def checksum_bookkeeping(ctx, I, s):
    from .externals import regex_guards
    from .pathfacts import consistent
    guards = regex_guards(I, 'REGEX_GCODE_LINE')
    if guards is None or 10 not in guards[0] or guards[0][10] == ():
        raise AnalysisError('anchor vanished: optional checksum group 10 of REGEX_GCODE_LINE')
    base = 'M:REGEX_GCODE_LINE(SRC,0)'
    k10 = ('nogroup', base, guards[0][10])
    where = 'GcodeParser.parse'
    for present in (True, False):
        assume = {k10: frozenset([not present])}
        if not consistent(s, assume):
            continue
        ctx.instance('C18.R7', ('checksum present' if present else 'no checksum', tuple(sorted((repr(k), tuple(sorted(map(str, v))))
                                                                                          for k, v in s.dom.items() if k[0] != 'sgn'))[-3:]))
        text = live_alts(s, s.heap.get(('GP', 'text')), assume)
        raw = live_alts(s, s.heap.get(('GP', '_rawChecksum')), assume)
        num = live_alts(s, s.heap.get(('GP', '_checksum')), assume)
        if present:
            for t in text:
                cut = 'slice(%s.g2)[:%r]' % (base, (Poly.const(-1) - Poly.sym('len(%s.g10)' % base)))
                if not (isinstance(t, SStr) and t.tag == cut):
                    ctx.report('C18.R7', where, 'checksum present but text is %s' % (getattr(t, 'tag', t),),
                               'on some path a line that carries a checksum keeps the "*<checksum>" tail in text (or cuts something '
                               'else): validate() then checksums the checksum itself, stringify() renders it twice')
            for r in raw:
                ok = isinstance(r, Cat) and r.skeleton() == '*{}' and getattr(r.args()[0][1], 'tag', '') == base + '.g10'
                if not ok:
                    ctx.report('C18.R7', where, 'checksum present but rawChecksum is %r' % (r,),
                               'rawChecksum must be "*" followed by the checksum digits exactly as they were written')
            for n in num:
                ok = isinstance(n, Num) and ('int(%s.g10)' % base) in repr(n.p)
                if not ok:
                    ctx.report('C18.R7', where, 'checksum present but checksum is %r' % (n,), 'checksum must be int(group 10)')
        else:
            for t in text:
                if not (isinstance(t, SStr) and t.tag == base + '.g2'):
                    ctx.report('C18.R7', where, 'no checksum but text is %s' % (getattr(t, 'tag', t),), 'text must be group 2 unchanged')
            for r in raw + num:
                if r is not NONE:
                    ctx.report('C18.R7', where, 'no checksum but rawChecksum/checksum is %r' % (r,), 'both must be None')


def rewind_rule(ctx, I, rule):
    """parse(text) with an explicit text reads THAT text from its beginning, whatever the (shared, long-lived) parser read
    before - also when the same command text is parsed twice in a row"""
    st = stale_state()
    res = I.run_method(st, GP, 'parse', Obj('GP'), [SStr('SRC')])
    n = 0
    for (s, v) in res:
        if isinstance(v, Raised):
            continue
        n += 1
        ctx.instance(rule, tuple(sorted((repr(k)[:60], tuple(sorted(map(str, d)))) for k, d in s.dom.items() if k[0] in ('eq', 'is'))))
        for src in live_alts(s, s.heap.get(('GP', 'source'))):
            same = isinstance(src, SStr) and src.tag == 'SRC'
            decided_equal = any(k[0] == 'eq' and 'STALE.source' in repr(k) and d == frozenset([True]) for k, d in s.dom.items())
            if not same and not decided_equal:
                ctx.report(rule, 'GcodeParser.parse', 'source after parse(text) is %r' % (src,),
                           'the parser does not take over the text it was given')
        for off in live_alts(s, s.heap.get(('GP', 'offset'))):
            if not (isinstance(off, Num) and off.is_const() and off.p.const_value() == 0):
                ctx.report(rule, 'GcodeParser.parse', 'offset after parse(text) is %r' % (getattr(off, 'p', off),),
                           'parse(text) does not start at the beginning of the text it was given (for example when the text equals '
                           'the one parsed before): the second of two identical commands is read as an empty line and its words are lost')
    if n == 0:
        raise AnalysisError('parse has no normal path')


def advance_rules(ctx, I, ok_paths):
    # second parse() without arguments continues right after the first match
    s0 = ok_paths[0][0].clone()
    first_end = None
    res = I.run_method(s0, GP, 'parse', Obj('GP'), [])
    for (s, v) in res:
        if isinstance(v, Raised):
            continue
        ctx.instance('C18.R7', 'parse()')
        off = s.heap.get(('GP', 'offset'))
        ms = [e for e in s.trace if e[0] == 'regex-match']
        if len(ms) < 2:
            ctx.report('C18.R7', 'GcodeParser.parse', 'continuation does not match again', '')
            continue
        first = ms[0][2]
        second = ms[1][2]
        want = 'M:REGEX_GCODE_LINE(%s).end()' % ','.join(['SRC', '0'])
        offs = live_alts(s, second[1]) if len(second) > 1 else []
        good = all(isinstance(o, Num) and o.p.single_symbol() == want for o in offs) and offs
        if not good or vkey(second[0]) != vkey(first[0]):
            ctx.report('C18.R7', 'GcodeParser.parse', 'continuation offset %r' % (offs,),
                       'parse() without arguments must continue in the same text exactly where the previous match ended '
                       '(offset + length with length = match.end() - offset)')
    # parseLines
    st = stale_state()
    res = I.run_method(st, GP, 'parseLines', Obj('GP'), [SStr('SRC')])
    seen_multi = False
    for (s, v) in res:
        if isinstance(v, Raised):
            continue
        ms = [e for e in s.trace if e[0] == 'regex-match']
        ys = [e for e in s.trace if e[0] == 'yield']
        ctx.instance('C18.R7', ('parseLines', len(ms), len(ys)))
        truncated = any(f[0] == 'loop-truncated' for f in s.flags)
        if not truncated and len(ys) != len(ms) - 1 and not (len(ms) == len(ys)):
            ctx.report('C18.R7', 'GcodeParser.parseLines', '%d matches, %d lines yielded' % (len(ms), len(ys)),
                       'every parsed line before the end must be yielded exactly once')
        for y in ys:
            if not (isinstance(y[2], Obj) and y[2].oid == 'GP'):
                ctx.report('C18.R7', 'GcodeParser.parseLines', 'yields %r' % (y[2],), 'parseLines must yield the parser')
        for a, b in zip(ms, ms[1:]):
            seen_multi = True
            prev_tag = 'M:REGEX_GCODE_LINE(%s)' % ','.join(
                [x.tag if isinstance(x, (SStr, Opaque)) else repr(x.p) for x in [a[2][0]] + live_alts(s, a[2][1])])
            offs = live_alts(s, b[2][1])
            if not all(isinstance(o, Num) and o.p.single_symbol() == prev_tag + '.end()' for o in offs):
                ctx.report('C18.R7', 'GcodeParser.parseLines', 'next offset %r' % (offs,),
                           'the next line must start where the previous match ended')
        # the loop may only stop when the offset reached the end of the text
        if not truncated:
            decided = [k for k in s.dom if k[0] == 'sgn' and 'len(SRC)' in repr(k)]
            if not decided:
                ctx.report('C18.R7', 'GcodeParser.parseLines', 'loop exit without end test',
                           'parseLines stops without having compared the offset with the length of the text')
    if not seen_multi:
        raise AnalysisError('parseLines: no path with two consecutive matches')


def checksum_rule(ctx, I):
    captured = []

    def computeChecksum(I, st, recv, args, kw, frame, node):
        captured.append(args[0])
        st.ev('checksum-of', args[0], frame.qual())
        return [(st, Num(I.symbol('checksum#%d' % len(captured)).p, True))]
    I.summaries[(GP, 'computeChecksum')] = computeChecksum
    st = State()
    st.cls['GP'] = GP
    st.heap[('GP', '_lineNumber')] = Num(I.symbol('LINENO').p, True)
    st.heap[('GP', '_gcode')] = SStr('GCODE', nonempty=True)
    st.heap[('GP', '_subCode')] = NONE
    st.heap[('GP', '_parameters')] = SStr('PARAMS', nonempty=True)
    st.heap[('GP', 'leadingWhitespace')] = SStr('LEAD')
    st.heap[('GP', 'comment')] = NONE
    st.heap[('GP', 'eol')] = SStr('EOL')
    st.heap[('GP', 'text')] = SStr('TEXT')
    res = I.run_method(st, GP, 'stringify', Obj('GP'), [])
    n = 0
    ctx.rule('C18.R9', 'the normalised command carries the parameter text whenever there is one (not None): dropping it on some '
                       'condition - blank-looking text, for example - makes the re-parsed command differ from the original', floor=1)
    for (s, v) in res:
        if not isinstance(v, Raised):
            ctx.instance('C18.R9', repr(vkey(v))[:80])
            if not any('PARAMS' in repr(vkey(x)) for x in live_alts(s, v)):
                ctx.report('C18.R9', 'GcodeParser.stringify', 'parameter text left out of the normalised command',
                           'on some path stringify() renders a command whose parameter text is not None without that text; parsing '
                           'the result again gives other parameters than the original line had')
    for (s, v) in res:
        evs = [e for e in s.trace if e[0] == 'checksum-of']      # computed by stringify or by a helper it calls
        if not evs or isinstance(v, Raised) or not isinstance(v, Cat):
            continue
        n += 1
        arg = evs[-1][1]
        # text emitted before the '*'
        prefix = []
        for part in v.parts:
            if isinstance(part, str) and '*' in part:
                prefix.append(part.split('*')[0])
                break
            prefix.append(part)
        pre = Cat(prefix)
        argc = arg if isinstance(arg, Cat) else Cat([('fmt', arg, '', 'raw')])
        ctx.instance('C18.R6', (repr(pre.key())[:80]))
        if vkey(pre) != vkey(argc):
            ctx.report('C18.R6', 'GcodeParser.stringify', 'checksum over a different text than the one emitted',
                       'the rendered line is "%s" + "*" + checksum but the checksum is computed over "%s"; validate() '
                       'checks the checksum against everything before the "*" (including leading whitespace), so a line '
                       'with leading whitespace fails its own checksum' % (pre.skeleton(), argc.skeleton()),
                       detail={'emitted_before_star': repr(pre.parts), 'checksummed': repr(argc.parts)})
    if n == 0:
        raise AnalysisError('stringify: no path renders a checksum')
    # validate() side: checksum of leadingWhitespace + text
    st = State()
    st.cls['GP'] = GP
    st.heap[('GP', '_checksum')] = Num(I.symbol('CK').p, True)
    st.heap[('GP', '_lineNumber')] = Num(I.symbol('LINENO').p, True)
    st.heap[('GP', 'leadingWhitespace')] = SStr('LEAD')
    st.heap[('GP', 'text')] = SStr('TEXT')
    res = I.run_method(st, GP, 'validate', Obj('GP'), [])
    for (s, v) in res:
        for e in s.trace:
            if e[0] == 'checksum-of' and e[2].endswith('validate'):
                ctx.instance('C18.R6', 'validate')
                a = e[1]
                sk = [p[1].tag if not isinstance(p, str) else p for p in (a.parts if isinstance(a, Cat) else [('fmt', a, '', 'raw')])]
                if sk != ['LEAD', 'TEXT']:
                    ctx.report('C18.R6', 'GcodeParser.validate', 'validate checks %s' % sk,
                               'validate() must check the checksum against the whole text before the "*"')


def run(ctx, tier):
    declare(ctx)
    language_rules(ctx)
    I = parser_interp(ctx.model, unroll=3 if tier == 'thorough' else 2)
    ok_paths = parse_rules(ctx, I)
    advance_rules(ctx, I, ok_paths)
    rewind_rule(ctx, I, 'C18.R8')
    checksum_rule(ctx, I)
    ctx.assume('the class alphabet (16 classes) is exact for every character class of the patterns (checked)')
    ctx.assume('re.match returns the leftmost match anchored at the given offset; group structure as in re._parser')
