"""Expression evaluation for the abstract interpreter."""
import ast
from fractions import Fraction

from .model import AnalysisError
from .poly import Poly
from .values import (NONE, Num, Str, SStr, Cat, Obj, TupleV, Star, Choice, Opaque, Bound, ClassRef, ExtFn,
                     ModuleRef, IterV, ParamIter, FuncV, vkey, deps_of)
from .absint import Raised, Unsupported, BOOL, SIGNS, _norm


def seq_eval(I, st, env, exprs, frame, forced=False):
    """evaluate expressions left to right; returns [(state, [values]) | (state, Raised)]"""
    cur = [(st, [])]
    for e in exprs:
        nxt = []
        for (s1, vs) in cur:
            if isinstance(vs, Raised):
                nxt.append((s1, vs))
                continue
            for (s2, v) in (I.evalf if forced else I.eval)(s1, env, e, frame):
                nxt.append((s2, v if isinstance(v, Raised) else vs + [v]))
        cur = nxt
    return cur


def eval_expr(I, st, env, e, frame):
    if isinstance(e, ast.Constant):
        return [(st, const_value(e.value))]
    if isinstance(e, ast.Name):
        return [(st, lookup_name(I, st, env, e.id, frame))]
    if isinstance(e, ast.Attribute):
        out = []
        for (s2, o) in I.evalf(st, env, e.value, frame):
            if isinstance(o, Raised):
                out.append((s2, o))
            else:
                out.extend(getattr_value(I, s2, o, e.attr, frame, e))
        return out
    if isinstance(e, ast.Call):
        from .calls import eval_call
        return eval_call(I, st, env, e, frame)
    if isinstance(e, ast.Set):
        r = eval_expr(I, st, env, ast.copy_location(ast.Tuple(elts=e.elts, ctx=ast.Load()), e), frame)
        return r        # a set literal of constants is only used for membership tests: order and duplicates are irrelevant
    if isinstance(e, (ast.DictComp, ast.SetComp)):
        from .loops import listcomp
        if isinstance(e, ast.SetComp):
            fake = ast.copy_location(ast.ListComp(elt=e.elt, generators=e.generators), e)
            return listcomp(I, st, env, fake, frame)
        fake = ast.copy_location(ast.ListComp(elt=ast.Tuple(elts=[e.key, e.value], ctx=ast.Load()), generators=e.generators), e)
        ast.fix_missing_locations(fake)
        out = []
        for (s2, v) in listcomp(I, st, env, fake, frame):
            if isinstance(v, Raised) or not (isinstance(v, Obj) and v.oid in s2.seqs):
                out.append((s2, v))
                continue
            oid = s2.new_oid('dict', 'dictcomp@%s' % frame.fn.name)
            items = []
            for el in s2.seqs[v.oid]:
                if isinstance(el, TupleV) and len(el.elems) == 2:
                    items = [it for it in items if not (it[0] == 'kv' and vkey(it[1]) == vkey(el.elems[0]))]
                    items.append(('kv', el.elems[0], el.elems[1]))
                else:
                    items.append(('star', getattr(el, 'tag', 'dictcomp')))
            s2.maps[oid] = tuple(items)
            out.append((s2, Obj(oid)))
        return out
    if isinstance(e, (ast.List, ast.Tuple)):
        out = []
        for (s2, vs) in seq_eval(I, st, env, [x.value if isinstance(x, ast.Starred) else x for x in e.elts], frame):
            if isinstance(vs, Raised):
                out.append((s2, vs))
                continue
            flat = []
            for x, v in zip(e.elts, vs):
                if isinstance(x, ast.Starred):
                    flat.extend(seq_elements(I, s2, v))
                else:
                    flat.append(v)
            if isinstance(e, ast.Tuple):
                out.append((s2, TupleV(flat)))
            else:
                oid = s2.new_oid('list', 'list@%s' % frame.fn.name)
                s2.seqs[oid] = tuple(flat)
                out.append((s2, Obj(oid)))
        return out
    if isinstance(e, ast.Dict):
        keys = [k for k in e.keys]
        if any(k is None for k in keys):
            raise Unsupported('dict unpacking')
        out = []
        for (s2, vs) in seq_eval(I, st, env, list(keys) + list(e.values), frame):
            if isinstance(vs, Raised):
                out.append((s2, vs))
                continue
            n = len(keys)
            oid = s2.new_oid('dict', 'dict@%s' % frame.fn.name)
            s2.maps[oid] = tuple(('kv', vs[i], vs[n + i]) for i in range(n))
            out.append((s2, Obj(oid)))
        return out
    if isinstance(e, ast.Compare) and len(e.ops) > 1:
        # a < b < c  ==  (a < b) and (b < c), operands evaluated once, left to right, short circuit
        out = []
        operands = [e.left] + list(e.comparators)

        def chain(s, i, left):
            if i >= len(e.ops):
                return [(s, True)]
            res = []
            for (s2, right) in I.evalf(s, env, operands[i + 1], frame):
                if isinstance(right, Raised):
                    res.append((s2, right))
                    continue
                for (s3, b) in compare(I, s2, left, e.ops[i], right, frame, e):
                    if isinstance(b, Raised) or b is False:
                        res.append((s3, b))
                    else:
                        res.extend(chain(s3, i + 1, right))
            return res
        for (s1, first) in I.evalf(st, env, e.left, frame):
            if isinstance(first, Raised):
                out.append((s1, first))
            else:
                out.extend(chain(s1, 0, first))
        return out
    if isinstance(e, ast.Compare):
        out = []
        for (s2, vs) in seq_eval(I, st, env, [e.left, e.comparators[0]], frame, forced=True):
            if isinstance(vs, Raised):
                out.append((s2, vs))
            else:
                out.extend(compare(I, s2, vs[0], e.ops[0], vs[1], frame, e))
        return out
    if isinstance(e, ast.BoolOp):
        return boolop_value(I, st, env, e, frame)
    if isinstance(e, ast.UnaryOp):
        if isinstance(e.op, ast.Not):
            return [(s, b if isinstance(b, Raised) else (not b)) for (s, b) in I.truth(st, env, e.operand, frame)]
        out = []
        for (s2, v) in I.evalf(st, env, e.operand, frame):
            if isinstance(v, Raised):
                out.append((s2, v))
            elif isinstance(v, Num):
                out.append((s2, Num(-v.p, v.isint) if isinstance(e.op, ast.USub) else v))
            elif v is NONE:
                out.append((s2, Raised('TypeError', 'unary op on None', (frame.qual(), e.lineno))))
            else:
                out.append((s2, Opaque('unary(%s)' % (vkey(v),), deps_of(v))))
        return out
    if isinstance(e, ast.BinOp):
        out = []
        if isinstance(e.op, (ast.Add, ast.Sub, ast.Mult, ast.Div)):
            # arithmetic distributes over lazily decided numeric values without forking the path
            # (the operands are evaluated exactly once: evaluation may restrict the state it is given)
            for (s2, vs) in seq_eval(I, st, env, [e.left, e.right], frame):
                if isinstance(vs, Raised):
                    out.append((s2, vs))
                    continue
                a, b = vs
                if (isinstance(a, Choice) or isinstance(b, Choice)) and _numeric_choice(a) and _numeric_choice(b):
                    r = _lazy_arith(I, s2, a, e.op, b, frame, e)
                    if r is not None:
                        out.append((s2, r))
                        continue
                for (s3, fa) in I.force(s2, a):
                    for (s4, fb) in I.force(s3, b):
                        out.extend(binop(I, s4, fa, e.op, fb, frame, e))
            return out
        for (s2, vs) in seq_eval(I, st, env, [e.left, e.right], frame, forced=True):
            if isinstance(vs, Raised):
                out.append((s2, vs))
            else:
                out.extend(binop(I, s2, vs[0], e.op, vs[1], frame, e))
        return out
    if isinstance(e, ast.IfExp):
        merge = getattr(I, 'merge_ifs', True)
        base = st.clone() if merge else st
        out = []
        for (s2, b) in I.truth(base, env, e.test, frame):
            if isinstance(b, Raised):
                out.append((s2, b))
            else:
                out.extend(I.eval(s2, env, e.body if b else e.orelse, frame))
        if not merge:
            return out
        # a conditional expression whose branches are plain data and have no effects: one lazily decided value instead of
        # one path per branch (same idea as the merging of if statements)
        from .merge import is_data, dom_delta
        if len(out) >= 2 and all(not isinstance(v, Raised) and is_data(v) and len(s2.trace) == len(st.trace) and
                                 s2.heap == st.heap and s2.seqs == st.seqs and s2.maps == st.maps and s2.flags == st.flags
                                 for (s2, v) in out):
            alts = []
            for (s2, v) in out:
                delta = {k: d for k, d in dom_delta(st, s2).items() if k[0] != 'sgn'}
                if any(k[0] == 'sgn' for k in dom_delta(st, s2)):
                    alts = None
                    break
                alts.append((delta, v))
            if alts is not None:
                return [(st, Choice(alts))]
        if len(out) == 1 and not merge:
            return out
        # not mergeable: redo on the real state (the probe ran on a clone)
        out = []
        for (s2, b) in I.truth(st, env, e.test, frame):
            if isinstance(b, Raised):
                out.append((s2, b))
            else:
                out.extend(I.eval(s2, env, e.body if b else e.orelse, frame))
        return out
    if isinstance(e, ast.Subscript):
        from .containers import getitem
        return getitem(I, st, env, e, frame)
    if isinstance(e, ast.JoinedStr):
        parts_e = []
        layout = []
        for v in e.values:
            if isinstance(v, ast.Constant):
                layout.append(v.value)
            else:
                spec = ''
                if v.format_spec is not None:
                    spec = ''.join(x.value for x in v.format_spec.values if isinstance(x, ast.Constant))
                layout.append(('fmt', len(parts_e), spec, {-1: '', 115: 's', 114: 'r', 97: 'a'}.get(v.conversion, '')))
                parts_e.append(v.value)
        out = []
        for (s2, vs) in seq_eval(I, st, env, parts_e, frame, forced=True):
            if isinstance(vs, Raised):
                out.append((s2, vs))
                continue
            parts = []
            for p in layout:
                if isinstance(p, str):
                    parts.append(p)
                    continue
                v = vs[p[1]]
                if not p[2] and p[3] in ('', 's') and isinstance(v, Cat):
                    parts.extend(v.parts)       # a string value is inserted unchanged
                elif not p[2] and p[3] in ('', 's') and isinstance(v, Str):
                    parts.append(v.s)
                else:
                    parts.append(('fmt', v, p[2], p[3]))
            out.append((s2, Cat(parts) if parts else Str('')))
        return out
    if isinstance(e, ast.ListComp):
        from .loops import listcomp
        return listcomp(I, st, env, e, frame)
    if isinstance(e, ast.GeneratorExp):
        # lazy: consumed element by element by any()/all() (short circuit, one abstract iteration per element);
        # every other consumer materialises it like a list comprehension
        from .values import GenV
        return [(st, GenV(e, dict(env), frame))]
    if isinstance(e, ast.Lambda):
        from .absint import closure_snapshot
        return [(st, FuncV(frame.mod, e, closure_snapshot(e, env, frame) if env else None, frame.cls))]
    if isinstance(e, ast.Starred):
        return I.eval(st, env, e.value, frame)
    if isinstance(e, ast.Yield):
        out = []
        for (s2, v) in (I.eval(st, env, e.value, frame) if e.value is not None else [(st, NONE)]):
            if isinstance(v, Raised):
                out.append((s2, v))
                continue
            y = env.get('@yield')
            s2.seqs[y.oid] = s2.seqs[y.oid] + (v,)
            s2.ev('yield', frame.qual(), v)
            out.append((s2, NONE))
        return out
    raise Unsupported('expression %s in %s' % (type(e).__name__, frame.qual()))


def const_value(v):
    if v is None:
        return NONE
    if v is True or v is False:
        return v
    if isinstance(v, str):
        return Str(v)
    if isinstance(v, (int, float)):
        return Num.const(v)
    if isinstance(v, tuple):
        return TupleV([const_value(x) for x in v])
    return Opaque('const:%r' % (v,))


def lookup_name(I, st, env, name, frame):
    if name in env:
        return env[name]
    mod = frame.mod
    m = I.m
    if (mod, name) in m.consts or name in m.imports.get(mod, {}):
        try:
            return const_value(m.resolve_const(mod, name))
        except (KeyError, TypeError):
            pass
    if name in m.classes:
        return ClassRef(name)
    if (mod, name) in m.functions:
        return FuncV(mod, m.functions[(mod, name)])
    imp = m.imports.get(mod, {}).get(name)
    if imp is not None and imp[0] == 'from':
        src = imp[1].split('.')[-1] if imp[1] else ''
        if (src, imp[2]) in m.functions:
            return FuncV(src, m.functions[(src, imp[2])])
    if imp is not None:
        if imp[0] == 'mod':
            return ModuleRef(imp[1])
        return ModuleRef('%s.%s' % (imp[1], imp[2]))
    if (mod, name) in m.consts:
        node = m.consts[(mod, name)]
        from . import census
        mut = census.mutable_tables(m).get((mod, name))
        if mut is not None:
            # a module-level container that the package may change at run time: its content is part of the history,
            # not a constant (an unknown number per key of the initial display; anything else is opaque)
            oid = 'global:%s.%s' % (mod, name)
            if isinstance(node, ast.Dict) and st is not None and all(isinstance(k, ast.Constant) for k in node.keys):
                if oid not in st.maps:
                    st.maps[oid] = tuple(('kv', const_value(k.value), I.symbol('%s[%r]' % (oid, k.value), kind='global', table=oid))
                                         for k in node.keys)
                    st.cls[oid] = 'dict'
                st.ev('global-table', oid, mut[1], mut[2], mut[3])
                return Obj(oid)
            return Opaque(oid)
        if isinstance(node, ast.Dict) and st is not None:
            # module-level lookup table (possibly of lambdas): built in the current state; only read by the package
            from .absint import Frame
            oid = 'const:%s.%s' % (mod, name)
            if oid not in st.maps:
                fr0 = Frame(None, mod, ast.parse('def _c(): pass').body[0], 0)
                items = []
                ok = all(k is not None for k in node.keys)
                for kn, vn in zip(node.keys, node.values):
                    if not ok:
                        break
                    rk = I.eval(st, {}, kn, fr0)
                    rv = I.eval(st, {}, vn, fr0)
                    if len(rk) != 1 or len(rv) != 1:
                        ok = False
                        break
                    items.append(('kv', rk[0][1], rv[0][1]))
                if ok:
                    st.maps[oid] = tuple(items)
                    st.cls[oid] = 'dict'
            if oid in st.maps:
                return Obj(oid)
        if isinstance(node, (ast.BinOp, ast.UnaryOp, ast.Attribute, ast.Tuple, ast.List, ast.Set)):
            # arithmetic over symbolic constants such as 2 * math.pi: evaluate abstractly
            from .absint import Frame
            from .state import State
            try:
                r = I.eval(State(), {}, node, Frame(None, mod, ast.parse('def _c(): pass').body[0], 0))
            except Exception:  # noqa
                r = []
            if len(r) == 1 and isinstance(r[0][1], (Num, TupleV, Str)):
                return r[0][1]
            if len(r) == 1 and isinstance(r[0][1], Obj) and r[0][1].oid in r[0][0].seqs:
                return TupleV(r[0][0].seqs[r[0][1].oid])
        # non-foldable module constant (compiled regex, ...)
        return Opaque('const:%s.%s' % (mod, name))
    if name in ('True', 'False', 'None'):
        return {'True': True, 'False': False, 'None': NONE}[name]
    import builtins
    if hasattr(builtins, name):
        return ExtFn(name)
    raise Unsupported('unresolved name %s in %s' % (name, frame.qual()))


def materialise_gen(I, st, g):
    """[(state, IterV)] - a generator expression evaluated like the list comprehension it abbreviates"""
    from .loops import listcomp
    out = []
    for (s2, v) in listcomp(I, st, g.env, g.node, g.frame):
        if isinstance(v, Obj) and v.oid in s2.seqs:
            out.append((s2, IterV(s2.seqs[v.oid], 'genexp')))
        else:
            out.append((s2, v))
    return out


def seq_elements(I, st, v):
    """element list of an abstract sequence value (Stars preserved)"""
    if type(v).__name__ == 'GenV':
        r = materialise_gen(I, st, v)
        if len(r) != 1 or r[0][0] is not st or not isinstance(r[0][1], IterV):
            raise Unsupported('generator expression with forking elements used as a sequence')
        return list(r[0][1].elems)
    if isinstance(v, TupleV):
        return list(v.elems)
    if isinstance(v, Obj) and v.oid in st.seqs:
        return list(st.seqs[v.oid])
    if isinstance(v, IterV):
        return list(v.elems)
    if isinstance(v, Str):
        return [Str(ch) for ch in v.s]          # a literal string iterates over its characters
    if isinstance(v, (Opaque, SStr)):
        return [Star('elems(%s)' % v.tag)]
    if v is NONE:
        raise Unsupported('iterating None')
    raise Unsupported('sequence elements of %r' % (v,))


# ---------------------------------------------------------------------- attribute read
def getattr_value(I, st, o, attr, frame, node=None):
    if isinstance(o, Obj):
        cls = st.cls[o.oid]
        if cls in I.m.classes or any(c in I.m.classes for c in I.m.mro(cls)):
            c, prop = I.m.lookup(cls, attr, 'props')
            if prop is not None:
                key = (c, attr)
                if key in I.summaries:
                    return I.summaries[key](I, st, o, [], {}, frame, node)
                return I.run_fn(st, c, I.m.classes[c].module, prop, o, [], {}, frame.depth + 1)
            c, fn = I.m.lookup(cls, attr)
            if fn is not None:
                if attr in I.m.classes[c].statics:
                    return [(st, Bound(None, c, fn))]
                return [(st, Bound(o, c, fn))]
        if o.oid in st.seqs or o.oid in st.maps:
            return [(st, ExtFn('%s.%s' % ('list' if o.oid in st.seqs else 'dict', attr), o))]
        key = (o.oid, attr)
        if key not in st.heap:
            if attr == '__class__':
                return [(st, ClassRef(cls))]
            if attr == '__dict__' and cls in I.m.classes:
                # a snapshot of the instance attributes: every field of the class known to the field table or present on
                # the object, in a stable order
                names = []
                for c in I.m.mro(cls):
                    for (c2, a) in I.fieldspec:
                        if c2 == c and a not in names and not str(a).startswith('@'):
                            names.append(a)
                for (oid2, a) in list(st.heap):
                    if oid2 == o.oid and a not in names and not str(a).startswith('@'):
                        names.append(a)
                items = []
                for a in names:
                    if (o.oid, a) not in st.heap:
                        st.heap[(o.oid, a)] = I.materialise(st, o, cls, a)
                    items.append(('kv', Str(a), st.heap[(o.oid, a)]))
                doid = st.new_oid('dict', '__dict__(%s)' % o.oid)
                st.maps[doid] = tuple(items)
                st.flags.add(('fresh', doid))
                return [(st, Obj(doid))]
            if attr == '__dict__':
                return [(st, Opaque('__dict__(%s)' % o.oid))]
            st.heap[key] = I.materialise(st, o, cls, attr)
        return [(st, st.heap[key])]
    if o is NONE:
        return [(st, Raised('AttributeError', 'None.%s' % attr, (frame.qual(), getattr(node, 'lineno', 0))))]
    if isinstance(o, ModuleRef):
        from .externals import module_attr
        return [(st, module_attr(I, st, o, attr))]
    if isinstance(o, ClassRef):
        if attr == '__name__':
            return [(st, Str(o.name))]
        c, fn = I.m.lookup(o.name, attr)
        if fn is not None:
            return [(st, Bound(None, c, fn))]
        return [(st, Opaque('%s.%s' % (o.name, attr)))]
    if isinstance(o, (Str, SStr, Cat)):
        return [(st, ExtFn('str.%s' % attr, o))]
    if isinstance(o, TupleV):
        return [(st, ExtFn('tuple.%s' % attr, o))]
    if isinstance(o, Opaque):
        if o.tag.startswith('logger'):
            return [(st, ExtFn('logger.%s' % attr, o))]
        spec = I.ext_attr.get((o.tag, attr))
        if spec is not None:
            return [(st, spec(I, st, o))]
        return [(st, Opaque('%s.%s' % (o.tag, attr), o.deps | {o.tag}))]
    if isinstance(o, ExtFn):
        return [(st, ExtFn('%s.%s' % (o.name, attr), o.recv))]
    if isinstance(o, Num):
        return [(st, ExtFn('num.%s' % attr, o))]
    if isinstance(o, (IterV, ParamIter)):
        return [(st, ExtFn('iter.%s' % attr, o))]
    if isinstance(o, Bound):
        return [(st, Opaque('%r.%s' % (o, attr)))]
    raise Unsupported('attribute %s of %r in %s' % (attr, o, frame.qual()))


# ---------------------------------------------------------------------- truth
def truth_expr(I, st, env, e, frame):
    """returns [(state, bool | Raised)]"""
    if isinstance(e, ast.BoolOp):
        isand = isinstance(e.op, ast.And)

        def rec(s, vals):
            if not vals:
                return [(s, isand)]
            res = []
            for (s2, b) in truth_expr(I, s, env, vals[0], frame):
                if isinstance(b, Raised):
                    res.append((s2, b))
                elif b != isand:
                    res.append((s2, b))
                else:
                    res.extend(rec(s2, vals[1:]))
            return res
        return rec(st, e.values)
    if isinstance(e, ast.UnaryOp) and isinstance(e.op, ast.Not):
        return [(s, b if isinstance(b, Raised) else (not b)) for (s, b) in truth_expr(I, st, env, e.operand, frame)]
    out = []
    for (s2, v) in I.evalf(st, env, e, frame):
        if isinstance(v, Raised):
            out.append((s2, v))
        else:
            out.extend(truth_value(I, s2, v, frame, e))
    return out


def truth_value(I, st, v, frame, node=None):
    if v is True or v is False:
        return [(st, v)]
    if v is NONE:
        return [(st, False)]
    if isinstance(v, Num):
        return I.decide_sign(st, v.p, frozenset([-1, 1]))
    if isinstance(v, Str):
        return [(st, bool(v.s))]
    if isinstance(v, SStr):
        if v.nonempty:
            return [(st, True)]
        return I.decide(st, ('truthy', v.key()), BOOL, frozenset([True]))
    if isinstance(v, Cat):
        if any(isinstance(p, str) and p for p in v.parts):
            return [(st, True)]
        return I.decide(st, ('truthy', v.key()), BOOL, frozenset([True]))
    if isinstance(v, TupleV):
        return [(st, bool(v.elems))]
    if isinstance(v, Obj):
        if v.oid in st.seqs:
            elems = st.seqs[v.oid]
            if not elems:
                return [(st, False)]
            opts = [x for x in elems if type(x).__name__ == 'Opt']
            if any((not isinstance(x, Star) and type(x).__name__ != 'Opt') or (isinstance(x, Star) and x.nonempty) for x in elems):
                return [(st, True)]
            if opts:
                # elements that are only there when a decision key has one of the allowed values (words of a command):
                # the list is non-empty as soon as one of them is present
                from .loops import PSTATUS
                out = []
                cur = [st]
                for o in opts:
                    nxt = []
                    for s1 in cur:
                        for (s2, there) in I.decide(s1, o.key_, PSTATUS, o.allowed):
                            if there:
                                out.append((s2, True))
                            else:
                                nxt.append(s2)
                    cur = nxt
                stars = [x for x in elems if isinstance(x, Star)]
                for s1 in cur:
                    if stars:
                        out.extend(I.decide(s1, ('nonempty', tuple(x.tag for x in stars)), BOOL, frozenset([True])))
                    else:
                        out.append((s1, False))
                return out
            return I.decide(st, ('nonempty', tuple(x.tag for x in elems)), BOOL, frozenset([True]))
        if v.oid in st.maps:
            items = st.maps[v.oid]
            if not items:
                return [(st, False)]
            if any(it[0] == 'kv' for it in items):
                return [(st, True)]
            return I.decide(st, ('nonempty', tuple(it[1] for it in items)), BOOL, frozenset([True]))
        return [(st, True)]
    if isinstance(v, (Bound, ClassRef, ExtFn, ModuleRef, FuncV)):
        return [(st, True)]
    if isinstance(v, Opaque):
        return I.decide(st, ('truthy', v.key()), BOOL, frozenset([True]))
    if isinstance(v, IterV):
        return [(st, True)]
    raise Unsupported('truth of %r in %s' % (v, frame.qual()))


def boolop_value(I, st, env, e, frame):
    """`a and b` / `a or b` as a value: returns the deciding operand (Python semantics)"""
    isand = isinstance(e.op, ast.And)

    def rec(s, vals):
        if len(vals) == 1:
            return I.evalf(s, env, vals[0], frame)
        res = []
        for (s2, v) in I.evalf(s, env, vals[0], frame):
            if isinstance(v, Raised):
                res.append((s2, v))
                continue
            for (s3, b) in truth_value(I, s2, v, frame, vals[0]):
                if b != isand:
                    res.append((s3, v))
                else:
                    res.extend(rec(s3, vals[1:]))
        return res
    return rec(st, e.values)


# ---------------------------------------------------------------------- comparison
_WANT = {ast.Lt: (-1,), ast.Gt: (1,), ast.Eq: (0,), ast.NotEq: (-1, 1), ast.LtE: (-1, 0), ast.GtE: (0, 1)}


def _is_nan(I, p):
    """the polynomial involves a symbol declared not-a-number (directly or as the argument of a function application)"""
    for sname in p.symbols():
        if sname in I.nan_symbols or (I.symdeps(sname) & I.nan_symbols):
            return True
    return False


def compare(I, st, a, op, b, frame, node=None):
    where = (frame.qual(), getattr(node, 'lineno', 0))
    if isinstance(op, (ast.Is, ast.IsNot)):
        pos = isinstance(op, ast.Is)
        if a is NONE or b is NONE:
            return [(st, (a is b) == pos)]
        if (a is True or a is False) and (b is True or b is False):
            return [(st, (a is b) == pos)]
        if isinstance(a, Obj) and isinstance(b, Obj):
            return [(st, (a.oid == b.oid) == pos)]
        return [(s, r == pos) for (s, r) in I.decide(st, ('is', vkey(a), vkey(b)), BOOL, frozenset([True]))]
    if isinstance(op, (ast.In, ast.NotIn)):
        pos = isinstance(op, ast.In)
        return [(s, r if isinstance(r, Raised) else (r == pos)) for (s, r) in contains(I, st, b, a, frame, node)]
    if getattr(I, 'nan_symbols', None) and isinstance(a, Num) and isinstance(b, Num) and (_is_nan(I, a.p) or _is_nan(I, b.p)):
        # IEEE: every ordering / equality comparison with a NaN operand is False, only != is True
        return [(st, isinstance(op, ast.NotEq))]
    if isinstance(op, (ast.Eq, ast.NotEq)):
        pos = isinstance(op, ast.Eq)
        return [(s, r if isinstance(r, Raised) else (r == pos)) for (s, r) in equals(I, st, a, b, frame)]
    want = _WANT.get(type(op))
    if want is None:
        raise Unsupported('comparison operator %s' % type(op).__name__)
    if isinstance(a, Num) and isinstance(b, Num):
        return I.decide_sign(st, a.p - b.p, frozenset(want))
    if a is NONE or b is NONE:
        return [(st, Raised('TypeError', 'ordering comparison with None', where))]
    if isinstance(a, Str) and isinstance(b, Str):
        d = (a.s > b.s) - (a.s < b.s)
        return [(st, d in want)]
    return I.decide(st, ('cmp', type(op).__name__, vkey(a), vkey(b)), BOOL, frozenset([True]))


def equals(I, st, a, b, frame):
    """[(state, bool)] for a == b"""
    if isinstance(a, Num) and isinstance(b, Num):
        return I.decide_sign(st, a.p - b.p, frozenset([0]))
    if (a is True or a is False) and isinstance(b, Num):
        a = Num.const(int(a))
        return equals(I, st, a, b, frame)
    if (b is True or b is False) and isinstance(a, Num):
        return equals(I, st, a, Num.const(int(b)), frame)
    if a is NONE or b is NONE:
        if a is b:
            return [(st, True)]
        other = b if a is NONE else a
        if isinstance(other, Opaque):
            return I.decide(st, ('isnone', other.key()), BOOL, frozenset([True]))
        return [(st, False)]
    if (a is True or a is False) and (b is True or b is False):
        return [(st, a == b)]
    if isinstance(a, Str) and isinstance(b, Str):
        return [(st, a.s == b.s)]
    if isinstance(a, Obj) and isinstance(b, Obj):
        if a.oid == b.oid:
            return [(st, True)]
        if a.oid in st.seqs and b.oid in st.seqs and st.seqs[a.oid] == () and st.seqs[b.oid] == ():
            return [(st, True)]
        ca, cb = st.cls.get(a.oid), st.cls.get(b.oid)
        if ca != cb:
            return [(st, False)]
    if type(a) in (Str, Num, TupleV) and type(b) in (Str, Num, TupleV) and type(a) is not type(b):
        return [(st, False)]
    if isinstance(a, TupleV) and isinstance(b, TupleV):
        if len(a.elems) != len(b.elems):
            return [(st, False)]
        if vkey(a) == vkey(b):
            return [(st, True)]
    ka, kb = vkey(a), vkey(b)
    if ka == kb and not isinstance(a, Opaque):
        return [(st, True)]
    if repr(ka) > repr(kb):
        ka, kb = kb, ka
    # an opaque value compared with several distinct constants can equal at most one of them
    key = ('eq', ka, kb)
    if isinstance(a, (Opaque, SStr)) != isinstance(b, (Opaque, SStr)):
        unk, con = (a, b) if isinstance(a, (Opaque, SStr)) else (b, a)
        if isinstance(con, (Str, Num)):
            dk = ('valueof', vkey(unk))
            cur = st.dom.get(dk)
            ck = vkey(con)
            if cur is not None:
                # cur is frozenset of ('is', k) / ('not', k) facts
                if ('is', ck) in cur:
                    return [(st, True)]
                if ('not', ck) in cur or any(f[0] == 'is' for f in cur):
                    return [(st, False)]
            s1 = st.clone()
            I.stats['forks'] += 1
            s1.dom[dk] = frozenset([('is', ck)])
            s1.declog.append((key, frozenset([True])))
            st.dom[dk] = (cur or frozenset()) | {('not', ck)}
            st.declog.append((key, frozenset([False])))
            return [(s1, True), (st, False)]
    return I.decide(st, key, BOOL, frozenset([True]))


def contains(I, st, container, item, frame, node=None):
    if isinstance(container, TupleV) or (isinstance(container, Obj) and container.oid in st.seqs):
        elems = seq_elements(I, st, container)
        if any(isinstance(x, Star) for x in elems):
            return I.decide(st, ('in', vkey(item), vkey(container)), BOOL, frozenset([True]))

        def rec(s, rest):
            if not rest:
                return [(s, False)]
            res = []
            if type(rest[0]).__name__ == 'Opt':
                from .loops import PSTATUS
                for (s2, there) in I.decide(s, rest[0].key_, PSTATUS, rest[0].allowed):
                    res.extend(rec(s2, ((rest[0].value,) if there else ()) + tuple(rest[1:])))
                return res
            for (s2, x) in I.force(s, rest[0]):
                for (s3, r) in equals(I, s2, item, x, frame):
                    if r:
                        res.append((s3, True))
                    else:
                        res.extend(rec(s3, rest[1:]))
            return res
        return rec(st, elems)
    if isinstance(container, Obj) and container.oid in st.maps:
        from .containers import map_contains
        return map_contains(I, st, container, item, frame)
    if isinstance(container, Str) and isinstance(item, Str):
        return [(st, item.s in container.s)]
    if container is NONE:
        return [(st, Raised('TypeError', 'argument of type NoneType is not iterable',
                            (frame.qual(), getattr(node, 'lineno', 0))))]
    return I.decide(st, ('in', vkey(item), vkey(container)), BOOL, frozenset([True]))


# ---------------------------------------------------------------------- arithmetic
def binop(I, st, a, op, b, frame, node):
    where = (frame.qual(), node.lineno)
    if isinstance(a, Num) and isinstance(b, Num):
        if isinstance(op, ast.Add):
            return [(st, Num(a.p + b.p, a.isint and b.isint))]
        if isinstance(op, ast.Sub):
            return [(st, Num(a.p - b.p, a.isint and b.isint))]
        if isinstance(op, ast.Mult):
            return [(st, Num(a.p * b.p, a.isint and b.isint))]
        if isinstance(op, (ast.Div, ast.FloorDiv, ast.Mod)):
            opname = {ast.Div: '/', ast.FloorDiv: '//', ast.Mod: '%'}[type(op)]
            out = []
            for (s2, nz) in I.decide_sign(st, b.p, frozenset([-1, 1])):
                if not nz:
                    s2.ev('partial', 'div0', frame.qual(), _norm(node), node.lineno)
                    out.append((s2, Raised('ZeroDivisionError', _norm(node), where)))
                    continue
                s2.ev('divide', frame.qual(), _norm(node), node.lineno)
                if isinstance(op, ast.Div):
                    q = a.p.div(b.p)
                    if q is None:
                        out.append((s2, I.app('div', [a, b])))
                    else:
                        out.append((s2, Num(q)))
                else:
                    out.append((s2, I.app(opname, [a, b])))
            return out
        if isinstance(op, ast.Pow):
            out = []
            cur = [(st, False)]
            if not a.isint and not a.is_const() and not (b.is_const() and b.p.const_value() in (0, 1)):
                # float ** n raises OverflowError where the product would merely be inf: a partial operation on numbers whose
                # magnitude the path does not bound
                cur = I.decide(st, ('pow-overflow', vkey(a), vkey(b)), BOOL, frozenset([True]))
            for (s2, ov) in cur:
                if ov:
                    s2.ev('partial', 'pow-overflow', frame.qual(), _norm(node), node.lineno)
                    out.append((s2, Raised('OverflowError', 'float power out of range: %s' % _norm(node), where)))
                elif b.is_const() and b.p.const_value().denominator == 1 and 0 <= b.p.const_value() <= 8:
                    out.append((s2, Num(a.p.pow(int(b.p.const_value())), a.isint)))
                else:
                    out.append((s2, I.app('pow', [a, b])))
            return out
        if isinstance(op, (ast.BitXor, ast.BitAnd, ast.BitOr)):
            return [(st, I.app(type(op).__name__, [a, b]))]
        raise Unsupported('numeric operator %s' % type(op).__name__)
    if isinstance(op, (ast.BitXor, ast.BitAnd, ast.BitOr)) and a in (True, False) and b in (True, False):
        r = {ast.BitXor: a ^ b, ast.BitAnd: a & b, ast.BitOr: a | b}[type(op)]
        return [(st, r)]
    if a in (True, False) and isinstance(b, Num):
        return binop(I, st, Num.const(int(a)), op, b, frame, node)
    if b in (True, False) and isinstance(a, Num):
        return binop(I, st, a, op, Num.const(int(b)), frame, node)
    strs = (Str, SStr, Cat)
    if isinstance(op, ast.Add):
        if isinstance(a, strs) and isinstance(b, strs):
            return [(st, cat_values(a, b))]
        if isinstance(a, Obj) and a.oid in st.seqs and isinstance(b, Obj) and b.oid in st.seqs:
            if getattr(node, '_aug_inplace', False):
                st.seqs[a.oid] = st.seqs[a.oid] + st.seqs[b.oid]
                st.ev('seq-extend', a.oid, b, frame.qual())
                return [(st, a)]
            oid = st.new_oid('list', 'list+@%s' % frame.fn.name)
            st.seqs[oid] = st.seqs[a.oid] + st.seqs[b.oid]
            return [(st, Obj(oid))]
        if isinstance(a, TupleV) and isinstance(b, TupleV):
            return [(st, TupleV(a.elems + b.elems))]
    if isinstance(op, ast.Mod) and isinstance(a, strs):
        # %-formatting
        args = list(b.elems) if isinstance(b, TupleV) else [b]
        from .externals import note_text_conversion
        note_text_conversion(I, st, args, frame)
        if isinstance(a, Str):
            return [(st, percent_format(a.s, args))]
        return [(st, SStr('fmt%%(%s)' % (vkey(a),), deps_of(a) | set().union(*[deps_of(x) for x in args]) if args else deps_of(a)))]
    if a is NONE or b is NONE:
        return [(st, Raised('TypeError', 'arithmetic on None: %s' % _norm(node), where))]
    if isinstance(a, Opaque) or isinstance(b, Opaque):
        return [(st, Opaque('(%s %s %s)' % (vkey(a), type(op).__name__, vkey(b)), deps_of(a) | deps_of(b)))]
    if isinstance(a, strs) != isinstance(b, strs) and isinstance(op, ast.Add):
        return [(st, Raised('TypeError', 'str + non-str: %s' % _norm(node), where))]
    raise Unsupported('binary %s on %r, %r in %s' % (type(op).__name__, a, b, frame.qual()))


def cat_values(a, b):
    def parts(v):
        if isinstance(v, Str):
            return [v.s]
        if isinstance(v, Cat):
            return list(v.parts)
        return [('fmt', v, '', 'raw')]
    r = Cat(parts(a) + parts(b))
    if len(r.parts) == 1 and isinstance(r.parts[0], str):
        return Str(r.parts[0])
    if not r.parts:
        return Str('')
    return r


def percent_format(fmt, args):
    import re
    parts = []
    pos = 0
    i = 0
    for mt in re.finditer(r'%(?:\((\w+)\))?([-#0 +]*\d*(?:\.\d+)?)([sdrfgeEGiu%])', fmt):
        parts.append(fmt[pos:mt.start()])
        pos = mt.end()
        if mt.group(3) == '%':
            parts.append('%')
            continue
        v = args[i] if i < len(args) else Opaque('missing-format-arg')
        i += 1
        if mt.group(3) == 's' and not mt.group(2) and isinstance(v, Cat):
            parts.extend(v.parts)       # %s of a string inserts it unchanged
            continue
        if mt.group(3) == 's' and not mt.group(2) and isinstance(v, Str):
            parts.append(v.s)
            continue
        parts.append(('fmt', v, mt.group(2) + mt.group(3), '%'))
    parts.append(fmt[pos:])
    r = Cat(parts)
    if len(r.parts) == 1 and isinstance(r.parts[0], str):
        return Str(r.parts[0])
    return r


def _numeric_choice(v):
    if isinstance(v, Num):
        return True
    if isinstance(v, Choice):
        return all(_numeric_choice(x) for _, x in v.alts)
    return False


def _flat_alts(v, cons=None):
    cons = cons or {}
    if not isinstance(v, Choice):
        return [(cons, v)]
    out = []
    for c, x in v.alts:
        merged = _conj(cons, c)
        if merged is not None:
            out.extend(_flat_alts(x, merged))
    return out


def _conj(c1, c2):
    out = dict(c1)
    for k, allowed in c2.items():
        if k in out:
            both = out[k] & allowed
            if not both:
                return None
            out[k] = both
        else:
            out[k] = allowed
    return out


def _lazy_arith(I, st, a, op, b, frame, node):
    alts = []
    for (c1, x) in _flat_alts(a):
        for (c2, y) in _flat_alts(b):
            c = _conj(c1, c2)
            if c is None:
                continue
            live = True
            for k, allowed in c.items():
                cur = st.dom.get(k)
                if cur is not None and not (cur & allowed):
                    live = False
                    break
            if not live:
                continue
            if isinstance(op, ast.Div) and 0 in I.infer_signs(st, y.p):
                return None     # the zero test must fork the path: not lazy
            r = binop(I, st, x, op, y, frame, node)
            if len(r) != 1 or isinstance(r[0][1], Raised):
                return None
            alts.append((c, r[0][1]))
    if not alts:
        return None
    if len(alts) > 16:
        return None
    from .loops import _merge_alts
    alts = _merge_alts(alts)
    if len(alts) == 1 and not alts[0][0]:
        return alts[0][1]
    return Choice(alts)
