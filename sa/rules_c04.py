"""C04 - extruder coordinate and extruded amounts are preserved outside regions."""
from .retraction import explore, A, E0
from .entries import make_interp
from .state import State
from .pathfacts import live_alts, template_letters
from .values import NONE, Num, Str, SStr, Cat, Obj, TupleV, Opaque, Choice, vkey
from .absint import Raised
from .model import AnalysisError
from .poly import Poly

PROP = 'C04'
S = Poly.sym


def declare(c):
    c.rule('C04.R1', 'E-register typestate: over every reachable sequence of retract / recover / travel / print steps inside '
                     'and outside regions, the printer\'s E register equals the file\'s whenever the tool is outside a region, '
                     'and nothing with an E word is forwarded while it is out of step', floor=50)
    c.rule('C04.R2', 'a forwarded extruding move pushes exactly the file\'s length: commands generated in front of it must '
                     'not already have moved the E register to its target', floor=2)
    c.rule('C04.R3', 'the temporary shift of the tracked E inside RetractionState._addCommands is undone on every path', floor=2)
    c.rule('C04.R4', 'E words of generated retraction commands are file-unit values of native positions; feed rate in file units', floor=2)


KIND_RULE = {'offset-outside': 'C04.R1', 'forward-unsynced': 'C04.R1', 'forward-inside': 'C04.R1', 'generated-extrusion': 'C04.R1',
             'extrusion-lost': 'C04.R2', 'raise': 'C04.R1', 'unreadable': 'C04.R1'}


def machine_rule(ctx, tier):
    viol, stats = explore(ctx, ctx.model, tier)
    ctx.instance('C04.R1', 'states', n=stats['states'])
    ctx.instance('C04.R1', 'transitions', n=stats['transitions'])
    ctx.instance('C04.R2', 'transitions', n=stats['handler_transitions'])
    for i in range(stats['transitions']):
        if i < 400:
            ctx.distinct.add(('C04.R1', i))
    ctx.extra['machine_states'] = stats['states']
    ctx.extra['machine_transitions'] = stats['transitions']
    ctx.extra['handler_path_transitions'] = stats['handler_transitions']
    for s in stats['samples']:
        ctx.sample(s)
    for v in viol:
        if v.get('prop') not in (None, 'C04'):
            continue
        rule = KIND_RULE.get(v['kind'], 'C04.R1')
        ctx.report(rule, v['func'], v['construct'],
                   '%s; shortest program reaching it: %s%s' % (v['text'], ' , '.join(v['trace']),
                                                              ('; step: ' + v['transition']) if v.get('transition') else ''),
                   detail={'trace': list(v['trace']), 'transition': v.get('transition')})


def addcommands_rule(ctx, r3='C04.R3', r4='C04.R4'):
    I = make_interp(ctx.model, modular=False)
    for direction, name in ((1, 'generateRetractCommands'), (-1, 'generateRecoverCommands')):
        st = State()
        st.cls['R'] = 'RetractionState'
        st.heap[('R', 'firmwareRetract')] = False
        st.heap[('R', 'extrusionAmount')] = I.symbol('AMT', frozenset([1]))
        st.heap[('R', 'feedRate')] = I.symbol('RFEED')
        st.heap[('R', 'originalCommand')] = SStr('RETRACTCMD', nonempty=True)
        st.cls['POS'] = 'Position'
        st.cls['EA'] = 'AxisPosition'
        st.heap[('POS', 'E_AXIS')] = Obj('EA')
        for a in ('current', 'offset', 'homeOffset'):
            st.heap[('EA', a)] = I.symbol('EA.' + a)
        st.heap[('EA', 'unitMultiplier')] = I.symbol('EA.unitMultiplier', frozenset([1]))
        st.heap[('EA', 'absoluteMode')] = I.atom(('fld', 'EA', 'absoluteMode'))
        res = I.run_method(st, 'RetractionState', name, Obj('R'), [Obj('POS')])
        for (s, v) in res:
            ctx.instance(r3, name)
            ctx.instance(r4, name)
            where = 'RetractionState._addCommands'
            if isinstance(v, Raised):
                ctx.report(r3, where, '%s raises' % name, repr(v))
                continue
            cur = live_alts(s, s.heap[('EA', 'current')])
            if not all(isinstance(c, Num) and c.p == S('EA.current') for c in cur):
                ctx.report(r3, where, 'tracked E not restored (%s)' % name,
                           'the temporary change of position.E_AXIS.current is not undone: the tracked extruder position drifts '
                           'by the retraction length every time commands are generated')
            elems = s.seqs.get(getattr(v, 'oid', None), ())
            u = S('EA.unitMultiplier')
            base = S('EA.current') - S('EA.offset') - S('EA.homeOffset')
            want92 = (base + S('AMT') * Poly.const(direction)).div(u)
            want1 = base.div(u)
            wantf = S('RFEED').div(u)
            got = {}
            for e in elems:
                for a in live_alts(s, e):
                    if isinstance(a, Cat):
                        letters = template_letters(a.skeleton())
                        for l, part in zip(letters, a.args()):
                            for x in live_alts(s, part[1]):
                                got[(a.skeleton().split(' ')[0], l)] = x
            checks = [(('G92', 'E'), want92, 'E set before the move'), (('G1', 'E'), want1, 'E target of the move'), (('G1', 'F'), wantf, 'feed rate')]
            for key, want, what in checks:
                x = got.get(key)
                if not (isinstance(x, Num) and x.p == want):
                    ctx.report(r4, where, '%s %s word (%s)' % (key[0], key[1], name),
                               '%s is %r, expected %r (file units of the native value; retract = set E above the target then move '
                               'down to it, recover = the reverse)' % (what, getattr(x, 'p', x), want))


def recorded_amount(col, gcode, paths, I, rule):
    """a retraction record created on a G0/G1 path stores the native (mm) length the move retracted: E before - E after"""
    from .pathfacts import Facts, S_OID
    eoid = '%s.position.E_AXIS' % S_OID
    for p in paths:
        f = Facts(p, I)
        if f.raised:
            continue
        created = [e[2] for e in p.st.trace if e[0] == 'new' and e[1] == 'RetractionState']
        for oid in created:
            fw = live_alts(p.st, p.st.heap.get((oid, 'firmwareRetract')))
            if fw != [False]:
                continue
            col.instance(rule, (gcode, f.describe(), tuple(f.decisions()[-3:])))
            before = S(eoid + '.current')
            for after in f.final(eoid, 'current'):
                if not isinstance(after, Num):
                    continue
                want = before - after.p
                for amt in live_alts(p.st, p.st.heap.get((oid, 'extrusionAmount'))):
                    if not (isinstance(amt, Num) and amt.p == want):
                        col.report(rule, 'ExcludeRegionState._processNonMove', 'recorded retraction length %r' % (getattr(amt, 'p', amt),),
                                   'the retraction record must hold the native (mm) distance the move retracted, %r: the owed recovery '
                                   'is generated later, possibly after the file changed units' % (want,),
                                   detail={'entry': p.entry, 'decisions': f.decisions()[-6:]})


def c01_path_premise(col, gcode, paths, I):
    # what reaches the printer while an episode is open is decided by C01: only the enter script and genuine retractions, never
    # the incoming command (an E word replayed inside a region pushes the whole backlog of suppressed extrusion)
    from . import rules_c01
    for rid, desc, floor in (('C01.R1', 'a forwarded move requires a failed region test and a state that is not excluding', 100),
                             ('C01.R2', 'while an episode is open only the enter script and genuine retractions are emitted', 50),
                             ('C01.R5', 'an episode is opened only when some point tested inside a region', 10),
                             ('C01.R6', 'tracked X/Y/Z/E follow the command whatever the region tests said', 100),
                             ('C01.R7', 'forwarded output is built per command', 100),
                             ('C03.R8', 'the travel generated on a leaving move goes to the tracked destination', 20)):
        col.rule(rid, 'C01: ' + desc, floor=floor)
    rules_c01.path_rules(col, gcode, paths, I, own=False)


def recorded_amount_c04(col, gcode, paths, I):
    declare(col)
    recorded_amount(col, gcode, paths, I, 'C04.R4')
    # the E words of the generated commands must reach the firmware as the numbers they stand for: plain decimals (C07.R1/R2)
    from . import rules_c07
    col.rule('C07.R1', 'C07: every synthesised command is one G/M code followed by distinct single-letter words', floor=4)
    col.rule('C07.R2', 'C07: every numeric word (the E of G92 E / G1 E in particular) is rendered by an exponent-free formatter', floor=8)
    rules_c07.path_rules(col, gcode, paths, I, own=False)
    c01_path_premise(col, gcode, paths, I)


def run(ctx, tier):
    declare(ctx)
    try:
        machine_rule(ctx, tier)
    except AnalysisError as ex:
        # the other rules still run: a violation found there is reported, the unfinished machine fails the run only otherwise
        ctx.deferred_errors.append(str(ex))
    addcommands_rule(ctx)
    from .handlers import run_path_rules
    run_path_rules(ctx, __name__, 'recorded_amount_c04', ['G0', 'G1'], unroll=1)
    from .rules_c19 import tokeniser_premise
    tokeniser_premise(ctx)
    from .rules_c08 import frame_premise, state_code_premise
    frame_premise(ctx)
    state_code_premise(ctx)
    ctx.assume('absolute extrusion mode, matched equal-length E-only or firmware cycles (the property quantifier); tracked E '
               'follows the file (C01.R6 / C19.R4); scripts and deferred codes do not touch E')
    ctx.assume('a printing move that leaves a region is re-positioned without extruding (documented behaviour)')
