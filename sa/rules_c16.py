"""C16 - arc moves are sampled faithfully (algebraic / structural skeleton of planArc and the radius form)."""
import ast

from .entries import make_interp, new_handlers_state, axis_logical
from .handlers import run_path_rules
from .pathfacts import live_alts, S_OID
from .values import NONE, Num, Str, SStr, Cat, Obj, TupleV, Opaque, Choice, vkey
from .absint import Raised
from .model import AnalysisError
from .poly import Poly

PROP = 'C16'
S = Poly.sym


def declare(c):
    c.rule('C16.R1', 'the last sampled pair is the commanded end point, verbatim', floor=4)
    c.rule('C16.R3', 'every intermediate sample is centre + R*(cos a, sin a) with one angle, R = hypot(i, j), centre = start + (i, j)', floor=4)
    c.rule('C16.R4', 'samples advance by equal angular steps travel/n from the start angle atan2(-j, -i); n-1 intermediate samples', floor=4)
    c.rule('C16.R4b', 'direction: travel = theta (+2pi when theta<0) (-2pi when clockwise), full circle when start = end', floor=4)
    c.rule('C16.R4c', 'theta = atan2(cross, dot) of the radius vectors centre->start and centre->end', floor=2)
    c.rule('C16.R5', 'density: n = max(1, ceil(|travel| * R / K)) with a constant K <= 1 (samples at most one unit apart)', floor=2)
    c.rule('C16.R6', 'radius form: the computed centre is at distance |R| from both end points', floor=1)
    c.rule('C16.R8', 'handler wiring: planArc receives the end point from the X/Y words (the current logical position where '
                     'a word is absent), the centre offsets from the I/J words of this command (0 where absent) or from '
                     'computeArcCenterOffsets(x, y, R, clockwise) in the radius form, clockwise exactly for G2; the points '
                     'handed to processLinearMoves are planArc\'s result, in order', floor=100)
    c.rule('C16.R7', 'no path of planArc / computeArcCenterOffsets raises', floor=4)


def prep_simple(I, st):
    """start position (x0, y0) in file units: offsets 0, unit 1"""
    for ax, n in (('X_AXIS', 'x0'), ('Y_AXIS', 'y0')):
        o = '%s.position.%s' % (S_OID, ax)
        st.heap[(o, 'current')] = I.symbol(n)
        st.heap[(o, 'offset')] = Num.const(0)
        st.heap[(o, 'homeOffset')] = Num.const(0)
        st.heap[(o, 'unitMultiplier')] = Num.const(1)


def app_info(I, p, fn):
    """if polynomial p is a single application symbol of fn: its argument polynomials"""
    n = p.single_symbol()
    if n is None:
        return None
    info = I.syminfo.get(n, {})
    if info.get('kind') == 'app' and info.get('fn') == fn:
        return [a.p for a in info['args']]
    return None


def split_trig(I, p, fn, Rsym):
    """p == R * fn(angle)  ->  angle polynomial"""
    if len(p.t) != 1:
        return None
    (m, c), = p.t.items()
    if c != 1:
        return None
    syms = dict(m)
    trig = [s for s in syms if I.syminfo.get(s, {}).get('fn') == fn]
    if len(trig) != 1 or syms[trig[0]] != 1:
        return None
    rest = Poly({tuple((s, e) for s, e in m if s != trig[0]): 1})
    if rest != Rsym:
        return None
    return I.syminfo[trig[0]]['args'][0].p


def density_ok(I, s, npoly):
    """npoly == max(1, ceil(c * |sweep| * R)) (or without the clamp / with int()) with a constant c >= 1, where the sweep
    is whatever the path computed: the ceil argument must be c * abs(T) * hypot(i,j) for one polynomial T"""
    name = npoly.single_symbol()
    if name is None:
        return False
    info = I.syminfo.get(name, {})
    inner = None
    if info.get('fn') == 'max':
        for a in info['args']:
            ai = app_info(I, a.p, 'ceil')
            if ai:
                inner = ai[0]
            else:
                ai2 = app_info(I, a.p, 'int')
                if ai2:
                    ai3 = app_info(I, ai2[0], 'ceil')
                    inner = ai3[0] if ai3 else None
    elif info.get('fn') == 'ceil':
        inner = info['args'][0].p
    elif info.get('fn') == 'int':
        ai = app_info(I, info['args'][0].p, 'ceil')
        inner = ai[0] if ai else None
    if inner is None:
        return False
    Rs = None
    for cand in ('hypot(ci,cj)', 'hypot(cj,ci)'):
        if cand in I.syminfo and cand in inner.symbols():
            Rs = S(cand)
    if Rs is None:
        return False
    q = inner.div(Rs)
    if q is None or (Rs.single_symbol() in q.symbols()):
        return False
    # q == c * |T| : either c*abs(T) with an abs symbol, or +-c*T with the sign known on the path
    absn = [nme for nme in q.symbols() if I.syminfo.get(nme, {}).get('fn') == 'abs']
    if len(absn) == 1 and len(q.t) == 1:
        (mm, c), = q.t.items()
        return mm == ((absn[0], 1),) and c >= 1
    if not absn and q.t:
        sg = I.infer_signs(s, q)
        if sg <= frozenset([0, 1]):
            # |T| = T/c' ... accept when q is a positive multiple (>= 1) of a sweep-like polynomial containing an atan2 or pi
            coeffs = [abs(c) for c in q.t.values()]
            return min(coeffs) >= 1 and any(I.syminfo.get(n2, {}).get('fn') == 'atan2' or n2 == 'pi' for n2 in q.symbols())
    return False


def plan_rules(ctx, I):
    st, H, St = new_handlers_state(I)
    prep_simple(I, st)
    ex, ey, ci, cj = I.symbol('endX'), I.symbol('endY'), I.symbol('ci'), I.symbol('cj')
    res = I.run_method(st, 'GcodeHandlers', 'planArc', H, [ex, ey, ci, cj, I.atom(('arg', 'cw'))])
    where = 'GcodeHandlers.planArc'
    pi2 = S('pi') * Poly.const(2)
    cx, cy = S('x0') + S('ci'), S('y0') + S('cj')
    rtx, rty = S('endX') - cx, S('endY') - cy
    cross = -S('ci') * rty + S('cj') * rtx
    dot = -S('ci') * rtx - S('cj') * rty
    n_ok = 0
    for (s, v) in res:
        ctx.instance('C16.R7', repr(v)[:40])
        if isinstance(v, Raised):
            ctx.report('C16.R7', (v.where or (where, 0))[0], 'raises %s: %s' % (v.exc, v.info), 'arc planning can raise on some input')
            continue
        if not (isinstance(v, Obj) and v.oid in s.seqs):
            ctx.report('C16.R1', where, 'returns %r' % (v,), 'planArc must return a list of coordinates')
            continue
        el = s.seqs[v.oid]
        ctx.instance('C16.R1', len(el))
        if len(el) < 2 or len(el) % 2:
            ctx.report('C16.R1', where, 'list of %d values' % len(el), 'samples must come in x,y pairs and include the end point')
            continue
        lastx, lasty = live_alts(s, el[-2]), live_alts(s, el[-1])
        if not (all(isinstance(a, Num) and a.p == S('endX') for a in lastx) and all(isinstance(a, Num) and a.p == S('endY') for a in lasty)):
            ctx.report('C16.R1', where, 'last pair is not the end point',
                       'the sample list must end with exactly (endX, endY): the tracked position and the final region test depend on it')
        cw = s.dom.get(('arg', 'cw'))
        cw = None if cw is None or len(cw) != 1 else next(iter(cw))
        # the hypot symbol
        Rs = None
        for cand in ('hypot(ci,cj)', 'hypot(cj,ci)'):
            if cand in I.syminfo:
                Rs = S(cand)
        # the number of samples is governed by range(1, n) with n the density expression, on EVERY path (also the
        # ones that return the end point alone)
        ranges = [e for e in s.trace if e[0] == 'range']
        ctx.instance('C16.R5', ('range', len(el), len(ranges)))
        if len(ranges) != 1 or len(ranges[0][1]) not in (1, 2) or not all(isinstance(a, Num) for a in ranges[0][1]):
            ctx.report('C16.R5', where, 'sample count not derived from the arc length (%d samples)' % (len(el) // 2),
                       'the list of samples is produced without a loop over range(1, n) with n computed from the arc length: '
                       'short-radius or special-cased arcs are not subdivided')
            continue
        rargs = ranges[0][1]
        count = (rargs[1].p - rargs[0].p) if len(rargs) == 2 else rargs[0].p      # number of loop iterations
        nseg = count + Poly.const(1)                                             # n segments <=> n-1 intermediate samples
        if nseg.single_symbol() is None:
            ctx.report('C16.R4', where, 'loop runs %r times' % (count,), 'n segments need exactly n-1 intermediate samples')
            continue
        if not density_ok(I, s, nseg):
            ctx.report('C16.R5', where, 'segment count %s' % repr(nseg)[:80],
                       'the segment count must be ceil(|sweep| * radius / K) with K <= 1 (clamped to at least 1), so that '
                       'neighbouring samples are at most one unit apart')
            continue
        angles = []
        bad = False
        for k in range(0, len(el) - 2, 2):
            for xa in live_alts(s, el[k]):
                for ya in live_alts(s, el[k + 1]):
                    ctx.instance('C16.R3', (len(el), k))
                    if not (isinstance(xa, Num) and isinstance(ya, Num)) or Rs is None:
                        bad = True
                        continue
                    a1 = split_trig(I, xa.p - cx, 'cos', Rs)
                    a2 = split_trig(I, ya.p - cy, 'sin', Rs)
                    if a1 is None or a2 is None or a1 != a2:
                        bad = True
                        ctx.report('C16.R3', where, 'sample %d is not on the circle' % (k // 2 + 1),
                                   'an intermediate sample is not centre + hypot(i,j)*(cos a, sin a) with centre = start + (i,j) '
                                   'and a single angle a')
                    else:
                        angles.append((k // 2 + 1, a1))
        if bad or not angles:
            if len(el) > 2 and not angles and not bad:
                ctx.report('C16.R3', where, 'no recognisable samples', '')
            continue
        n_ok += 1
        # equal steps from the start angle
        start = None
        for nme, info in I.syminfo.items():
            if info.get('fn') == 'atan2' and [a.p for a in info['args']] == [-S('cj'), -S('ci')]:
                start = S(nme)
        ctx.instance('C16.R4', (len(el), len(angles)))
        if start is None:
            ctx.report('C16.R4', where, 'start angle', 'the start angle is not atan2(-j, -i) (direction centre -> start)')
            continue
        inc = angles[0][1] - start
        for k, a in angles:
            if a - start != inc * Poly.const(k):
                ctx.report('C16.R4', where, 'unequal angular steps', 'sample %d is not at start + %d * step' % (k, k))
        # step = travel / n
        nsyms = [sname for sname in inc.symbols() if I.syminfo.get(sname, {}).get('fn') in ('max', 'int', 'ceil')]
        if len(nsyms) != 1:
            ctx.report('C16.R4', where, 'step is not travel / n', 'cannot identify the segment count in the angular step %r' % (inc,))
            continue
        npoly = S(nsyms[0])
        travel = inc * npoly
        if nsyms[0] in travel.symbols():
            ctx.report('C16.R4', where, 'step is not travel / n', 'the angular step is not the sweep divided by the segment count')
            continue
        # number of intermediate samples = n - 1: the loop runs over range(1, n)
        if npoly != nseg:
            ctx.report('C16.R4', where, 'step count differs from the loop count', 'the angular step divides the sweep by %r but the loop '
                       'produces %r - 1 samples' % (npoly, nseg))
        # R4b / R4c: direction and sweep
        theta = None
        for nme, info in I.syminfo.items():
            if info.get('fn') == 'atan2' and nme in travel.symbols():
                theta = (nme, [a.p for a in info['args']])
        ctx.instance('C16.R4b', (cw, repr(travel)[:60]))
        if theta is None:
            # full circle: travel == 2 pi
            if travel != pi2:
                ctx.report('C16.R4b', where, 'sweep %r' % (travel,), 'sweep is neither derived from atan2 nor a full circle')
            continue
        ctx.instance('C16.R4c', theta[0][:40])
        if theta[1] != [cross, dot]:
            ctx.report('C16.R4c', where, 'sweep angle arguments',
                       'the sweep must be atan2(cross, dot) of the vectors centre->start (-i,-j) and centre->end; got atan2(%r, %r)'
                       % (theta[1][0], theta[1][1]))
        th = S(theta[0])
        sg = I.infer_signs(s, th)
        neg = sg <= frozenset([-1])
        nonneg = sg <= frozenset([0, 1])
        if cw is None or not (neg or nonneg):
            ctx.report('C16.R4b', where, 'direction not decided', 'the sweep does not depend on the direction / sign of theta on this path')
            continue
        want = th + (pi2 if neg else Poly.const(0)) - (pi2 if cw else Poly.const(0))
        if travel != want:
            ctx.report('C16.R4b', where, 'sweep for clockwise=%s, theta %s' % (cw, '<0' if neg else '>=0'),
                       'sweep is %r, expected %r (counter-clockwise sweeps lie in [0, 2pi), clockwise ones in [-2pi, 0))' % (travel, want))
        ctx.sample({'rule': 'C16', 'samples': len(el) // 2, 'clockwise': cw, 'travel': repr(travel)[:80]})
    if n_ok == 0 and not ctx.findings:
        raise AnalysisError('planArc: no path with intermediate samples could be analysed')


def centre_rules(ctx, I):
    st, H, St = new_handlers_state(I)
    prep_simple(I, st)
    ex, ey, r = I.symbol('endX'), I.symbol('endY'), I.symbol('radius')
    res = I.run_method(st, 'GcodeHandlers', 'computeArcCenterOffsets', H, [ex, ey, r, I.atom(('arg', 'cw'))])
    where = 'GcodeHandlers.computeArcCenterOffsets'
    dx, dy = S('endX') - S('x0'), S('endY') - S('y0')
    n = 0
    for (s, v) in res:
        ctx.instance('C16.R7', ('centre', repr(v)[:30]))
        if isinstance(v, Raised):
            ctx.report('C16.R7', (v.where or (where, 0))[0], 'raises %s: %s' % (v.exc, v.info), 'radius-form arcs can raise')
            continue
        if not (isinstance(v, TupleV) and len(v.elems) == 2):
            ctx.report('C16.R6', where, 'returns %r' % (v,), 'expected the pair (i, j)')
            continue
        for ia in live_alts(s, v.elems[0]):
            for ja in live_alts(s, v.elems[1]):
                if not (isinstance(ia, Num) and isinstance(ja, Num)):
                    continue
                if ia.is_const() and ja.is_const():
                    continue        # (0, 0): no arc (rejected radius)
                n += 1
                ctx.instance('C16.R6', (repr(ia.p)[:40], repr(ja.p)[:40]))
                R2 = S('radius') * S('radius')
                e1 = ia.p * ia.p + ja.p * ja.p - R2
                e2 = (ia.p - dx) * (ia.p - dx) + (ja.p - dy) * (ja.p - dy) - R2
                ok = True
                for e in (e1, e2):
                    e = rewrite(I, e)
                    if not e.is_zero():
                        ok = False
                if not ok:
                    ctx.report('C16.R6', where, 'centre not equidistant from the end points',
                               'for the radius form the centre (start + (i,j)) must satisfy i^2+j^2 = R^2 and '
                               '(i-dx)^2+(j-dy)^2 = R^2; the perpendicular of the chord is built with a wrong sign, so the '
                               'centre lies on the circle only for axis-aligned chords')
    if n == 0:
        raise AnalysisError('computeArcCenterOffsets: no non-trivial result')


def rewrite(I, e):
    """apply sqrt(u)^2 -> u, hypot(a,b)^2 -> a^2+b^2 and divide-by-hypot normalisation"""
    changed = True
    guard = 0
    while changed and guard < 10:
        guard += 1
        changed = False
        # clear negative powers of hypot symbols by multiplying through
        for nme in list(e.symbols()):
            info = I.syminfo.get(nme, {})
            if info.get('fn') == 'hypot':
                low = min([dict(m).get(nme, 0) for m in e.t] + [0])
                if low < 0:
                    e = e * Poly({((nme, -low),): 1})
                    changed = True
        for nme in list(e.symbols()):
            info = I.syminfo.get(nme, {})
            if info.get('kind') != 'app':
                continue
            if info['fn'] == 'hypot':
                a, b = [x.p for x in info['args']]
                e2 = e.subst_even_power(nme, a * a + b * b)
            elif info['fn'] == 'sqrt':
                e2 = e.subst_even_power(nme, info['args'][0].p)
            else:
                continue
            if e2 != e:
                e = e2
                changed = True
    return e


def wiring_paths(col, gcode, paths, I):
    declare(col)
    from .pathfacts import Facts, CMDKEY
    from .values import vkey, TupleV
    where = 'GcodeHandlers._handle_G2'
    for p in paths:
        f = Facts(p, I)
        if f.raised:
            continue
        st = p.st
        calls = dict(((e[3], e[2]), dict(e[4])) for e in st.trace if e[0] == 'modular-call')
        rets = dict(((e[3], e[2]), e[4]) for e in st.trace if e[0] == 'modular-ret')
        plm = [dict(e[3]) for e in st.trace if e[0] == 'args' and e[2] == 'processLinearMoves']
        pa = calls.get(('planArc', 0))
        if pa is None:
            from .pathfacts import arc_executed
            if arc_executed(f) and f.pre_enabled is not False:     # with exclusion disabled nothing needs testing (tracking: C08.R7)
                col.instance('C16.R8', (gcode, 'not sampled', tuple(f.decisions()[-4:])))
                col.report('C16.R8', where, '%s with a non-zero centre offset is not sampled' % gcode,
                           'the path decided that a centre offset (I / J, or the offsets computed from R) is not zero - the '
                           'firmware executes that arc (without X / Y words it is a full circle) - but planArc is not called: no '
                           'point of the arc is tested against the regions', detail={'entry': p.entry, 'decisions': f.decisions()[-8:]})
            continue
        col.instance('C16.R8', (gcode, f.describe(), tuple(f.decisions()[-4:])))
        detail = {'entry': p.entry, 'decisions': f.decisions()[-8:]}
        names = list(pa)
        if len(names) != 5 or ('planArc', 1) in calls:
            col.report('C16.R8', where, 'planArc called with %d arguments / more than once' % len(names),
                       'the handler wiring is not the reviewed one (end point, centre offsets, direction)', detail=detail)
            continue
        ex, ey, ei, ej, ecw = [pa[n] for n in names]

        def alts(v, assume=None):
            return live_alts(st, v, assume)

        def pkey(letter):
            return ('param', CMDKEY, letter)
        # direction
        for a in alts(ecw):
            if a is not (gcode == 'G2'):
                col.report('C16.R8', where, '%s: clockwise=%r' % (gcode, a), 'G2 is the clockwise arc, G3 the counter-clockwise one',
                           detail=detail)
        # end point
        for v, letter, axn in ((ex, 'X', 'X_AXIS'), (ey, 'Y', 'Y_AXIS')):
            want_abs = axis_logical(I, '%s.position.%s' % (S_OID, axn))
            for status, want in ((frozenset(['V']), Poly.sym('p:%s' % letter)), (frozenset(['A', 'F']), want_abs)):
                if not (f.pstatus(letter) & status):
                    continue
                for a in alts(v, {pkey(letter): status}):
                    if not (isinstance(a, Num) and a.p == want):
                        col.report('C16.R8', where, '%s: end point %s = %r' % (gcode, letter, getattr(a, 'p', a)),
                                   'the arc end point handed to planArc must be the %s word (or the current logical position '
                                   'when the word is absent): expected %r' % (letter, want), detail=detail)
        # centre offsets
        cc = calls.get(('computeArcCenterOffsets', 0))
        rvalued = 'V' in f.pstatus('R') and f.pstatus('R') == frozenset(['V'])
        if cc is not None:
            cn = list(cc)
            ret = rets.get(('computeArcCenterOffsets', 0))
            if len(cn) != 4 or ret is None or len(ret) != 2:
                col.report('C16.R8', where, 'computeArcCenterOffsets wiring', 'unexpected arguments / result', detail=detail)
            else:
                for (got, want, what) in ((cc[cn[0]], ex, 'x'), (cc[cn[1]], ey, 'y'), (cc[cn[3]], ecw, 'clockwise')):
                    if vkey(got) != vkey(want):
                        col.report('C16.R8', where, 'radius form: %s differs between computeArcCenterOffsets and planArc' % what,
                                   'the centre is computed for another end point / direction than the arc that is sampled', detail=detail)
                for a in alts(cc[cn[2]], {pkey('R'): frozenset(['V'])}):
                    if not (isinstance(a, Num) and a.p == Poly.sym('p:R')):
                        col.report('C16.R8', where, 'radius form: radius = %r' % (getattr(a, 'p', a),),
                                   'the radius handed to computeArcCenterOffsets must be the R word', detail=detail)
                for got, want, what in ((ei, ret[0], 'i'), (ej, ret[1], 'j')):
                    if [vkey(a) for a in alts(got)] != [vkey(want)]:
                        col.report('C16.R8', where, 'radius form: %s is not the computed offset' % what,
                                   'planArc must receive the centre offsets returned by computeArcCenterOffsets', detail=detail)
            if 'V' not in f.pstatus('R'):
                col.report('C16.R8', where, 'radius form without R word', 'the centre is computed from a radius although the '
                           'command carries no R value', detail=detail)
        else:
            if rvalued:
                col.report('C16.R8', where, 'R word ignored', 'the command carries a radius but the centre is not computed from it',
                           detail=detail)
            for v, letter in ((ei, 'I'), (ej, 'J')):
                for status, want in ((frozenset(['V']), Poly.sym('p:%s' % letter)), (frozenset(['A', 'F']), Poly.const(0))):
                    if not (f.pstatus(letter) & status):
                        continue
                    for a in alts(v, {pkey(letter): status}):
                        if not (isinstance(a, Num) and a.p == want):
                            col.report('C16.R8', where, '%s: centre offset %s = %r' % (gcode, letter, getattr(a, 'p', a)),
                                       'the centre offset handed to planArc must be the %s word of this command (0 when the word '
                                       'is absent): expected %r' % (letter, want), detail=detail)
        # the sampled points are what is tested
        ret = rets.get(('planArc', 0))
        if not plm:
            col.report('C16.R8', where, 'arc planned but not processed', 'planArc\'s points never reach processLinearMoves',
                       detail=detail)
        elif ret is not None:
            args = plm[0]
            var = [v for k, v in args.items() if isinstance(v, TupleV)]
            got = var[0].elems if var else ()
            if [vkey(x) for x in got] != [vkey(x) for x in ret]:
                col.report('C16.R8', where, 'points handed to processLinearMoves differ from planArc\'s result',
                           'the region test must see every sampled point, in order, ending with the end point', detail=detail)


def run(ctx, tier):
    declare(ctx)
    run_path_rules(ctx, __name__, 'wiring_paths', ['G2', 'G3'], unroll=1)
    I = make_interp(ctx.model, unroll=4 if tier == 'thorough' else 3, modular=False)
    plan_rules(ctx, I)
    I2 = make_interp(ctx.model, modular=False)
    I2.merge_ifs = False
    centre_rules(ctx, I2)
    from .rules_c19 import tokeniser_premise
    tokeniser_premise(ctx)
    from .rules_c08 import frame_premise
    frame_premise(ctx)
    ctx.assume('exact real arithmetic and exact atan2/cos/sin: the floating-point values of the samples are NOT decided')
    ctx.assume('absolute positioning (the quantifier of the property); relative-mode arcs are a recorded finding of C08')
