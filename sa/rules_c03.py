"""C03 - leaving a region re-synchronises the tool position."""
import ast

from .handlers import run_path_rules
from .entries import make_interp, run_state_method, axis_logical
from .pathfacts import Facts, live_alts, classify, template_letters, S_OID
from .values import NONE, Num, Str, SStr, Cat, Obj, TupleV, Star, Choice, vkey
from .absint import Raised
from .poly import Poly
from . import census

PROP = 'C03'
POS = S_OID + '.position'
LAST = S_OID + '.lastPosition'


def declare(c):
    c.rule('C03.R1', 'exit composition: pending, exit script, G92 E, then Z before XY iff rising / after iff falling / '
                     'absent iff equal; excluding cleared', floor=6)
    c.rule('C03.R2', 'the Z remembered at entry is the height before the (dropped) entering move', floor=10)
    c.rule('C03.R3', 'the re-positioning words are valid in the positioning mode the file selected', floor=3)
    c.rule('C03.R4', 'every word of the exit commands is the firmware-side logical value of the tracked native '
                     'position ((current-offset-homeOffset)/unitMultiplier), feed rate in file units', floor=6)
    c.rule('C03.R7', 'inside an episode every move with an X/Y/Z word is tested against the regions and, when it tests outside, '
                     'closes the episode with the exit sequence', floor=100)
    c.rule('C03.R8', 'on every move path that closes an episode the X/Y/Z words of the generated travel are the logical values of '
                     'the position tracked at the END of the command (the file\'s position after it); without a generated Z move '
                     'the final Z equals the Z remembered at entry', floor=50)
    c.rule('C03.R6', 'excluding is cleared only by exitExcludedRegion / resetState and set only by enterExcludedRegion',
           floor=3)


def _arg(cat, letter):
    letters = template_letters(cat.skeleton())
    args = cat.args()
    if len(letters) != len(args):
        return None
    for l, a in zip(letters, args):
        if l == letter:
            return a[1]
    return None


def exit_rules(ctx, I, restrict, label):
    paths = run_state_method(I, 'exitExcludedRegion', [SStr('CMD', nonempty=True)], restrict)
    nexit = 0
    for p in paths:
        f = Facts(p, I)
        if f.raised:
            ctx.report('C03.R1', 'ExcludeRegionState.exitExcludedRegion', 'raises %s' % p.ret.exc,
                       'exit path raises %s: %s' % (p.ret.exc, p.ret.info), line=(p.ret.where or (0, 0))[1])
            continue
        if f.pre_excluding is not True:
            continue
        nexit += 1
        desc = f.describe()
        detail = {'entry': label, 'result': desc, 'decisions': f.decisions()}
        ctx.instance('C03.R1', (label, desc, tuple(f.decisions()[-4:])))
        ctx.instance('C03.R4', (label, desc))
        if f.kind != 'list':
            ctx.report('C03.R1', 'ExcludeRegionState.exitExcludedRegion', 'exit -> %s' % desc,
                       'an open episode is closed without the re-synchronisation commands', detail=detail)
            continue
        if f.post_excluding() is not False:
            ctx.report('C03.R1', 'ExcludeRegionState.exitExcludedRegion', 'excluding not cleared',
                       'exit path leaves excluding=%s' % f.post_excluding(), detail=detail)
        # positions of the parts
        seq = []
        for e in f.elems:
            ks = set(classify(a) for a in live_alts(p.st, e))
            seq.append(ks)
        order = []
        for i, ks in enumerate(seq):
            k = sorted(ks)[0]
            if len(ks) != 1:
                order.append(('mixed', i))
            elif k.startswith('star:each(pending)') or k == 'built' or k.startswith('star:pending'):
                order.append(('pending', i))
            elif k.startswith('star:exitScript'):
                order.append(('script', i))
            elif k == 'tmpl:G92 E{}':
                order.append(('g92e', i))
            elif k.startswith('tmpl:G0 ') and set(template_letters(k[5:])) - {'F'} == {'Z'}:
                order.append(('z', i))
            elif k.startswith('tmpl:G0 ') and set(template_letters(k[5:])) - {'F'} == {'X', 'Y'}:
                order.append(('xy', i))
            else:
                order.append(('other:' + k, i))
        names = [o[0] for o in order]
        rank = {'pending': 0, 'script': 1, 'g92e': 2, 'z': 3, 'xy': 3}
        bad = [n for n in names if n not in rank]
        if bad:
            ctx.report('C03.R1', 'ExcludeRegionState.exitExcludedRegion', 'exit -> %s' % desc,
                       'unexpected element in the exit sequence: %s' % bad[0], detail=detail)
            continue
        if [rank[n] for n in names] != sorted(rank[n] for n in names):
            ctx.report('C03.R1', 'ExcludeRegionState.exitExcludedRegion', 'exit order %s' % ' '.join(names),
                       'exit sequence out of order (expected pending, exit script, G92 E, moves)', detail=detail)
        if names.count('g92e') != 1 or names.count('xy') != 1 or names.count('z') > 1:
            ctx.report('C03.R1', 'ExcludeRegionState.exitExcludedRegion', 'exit parts %s' % ' '.join(names),
                       'exit sequence must contain exactly one G92 E, one X/Y move and at most one Z move',
                       detail=detail)
            continue
        # Z ordering against the decided order of new and remembered Z
        # the printer is physically at the remembered native Z and has to end at the tracked native Z: their order decides where
        # the Z move goes.  (Comparing the two as logical values is the same thing only while both are read in one frame -
        # the snapshot keeps the unit factor / offsets of the entry, which a G20/G21 inside the episode changes.)
        newz = axis_logical(I, POS + '.Z_AXIS')
        signs = I.infer_signs(p.st, Poly.sym(POS + '.Z_AXIS.current') - Poly.sym(LAST + '.Z_AXIS.current'))
        moves = [n for n in names if n in ('z', 'xy')]
        if moves == ['z', 'xy']:
            want = {1}
        elif moves == ['xy', 'z']:
            want = {-1}
        else:
            want = {0}
        if not (set(signs) <= want):
            ctx.report('C03.R1', 'ExcludeRegionState.exitExcludedRegion',
                       'moves %s with sign(newZ-oldZ) in %s' % ('+'.join(moves), sorted(signs)),
                       'Z must be raised before the X/Y travel and lowered after it (travel at the higher Z); the order of the '
                       'physical heights (remembered native Z versus tracked native Z) is not what the path decided - for example '
                       'because the two heights are compared as logical values read in different unit / offset frames',
                       detail=detail)
        # R4: values
        expect = {'E': axis_logical(I, POS + '.E_AXIS'), 'X': axis_logical(I, POS + '.X_AXIS'),
                  'Y': axis_logical(I, POS + '.Y_AXIS'), 'Z': newz,
                  'F': Poly.sym(S_OID + '.feedRate').div(Poly.sym(S_OID + '.feedRateUnitMultiplier'))}
        for (n, i) in order:
            if n not in ('g92e', 'z', 'xy'):
                continue
            for cat in live_alts(p.st, f.elems[i]):
                for letter in template_letters(cat.skeleton()):
                    got = _arg(cat, letter)
                    for g in live_alts(p.st, got):
                        if not isinstance(g, Num) or g.p != expect[letter]:
                            ctx.report('C03.R4', 'ExcludeRegionState.exitExcludedRegion',
                                       '%s word of %s' % (letter, cat.skeleton()),
                                       'value is %r, expected %r' % (getattr(g, 'p', g), expect[letter]), detail=detail)
        ctx.sample({'entry': label, 'result': desc, 'sign(newZ-oldZ)': sorted(signs)})
    return nexit


def mode_rule(ctx, I):
    """R3: in relative positioning the emitted absolute coordinates need a G90 ... G91 bracket (or deltas)"""
    for axes in (('X_AXIS', 'Y_AXIS', 'Z_AXIS'),):
        restrict = {('fld', S_OID, 'excluding'): [True]}
        for a in axes:
            restrict[('fld', '%s.%s' % (POS, a), 'absoluteMode')] = [False]
        paths = run_state_method(I, 'exitExcludedRegion', [SStr('CMD', nonempty=True)], restrict)
        for p in paths:
            f = Facts(p, I)
            if f.kind != 'list':
                continue
            ctx.instance('C03.R3', ('relative', f.describe()))
            lits = [classify(a) for e in f.elems for a in live_alts(p.st, e)]
            first_move = next((i for i, k in enumerate(lits) if k.startswith('tmpl:G0 ')), None)
            last_move = max((i for i, k in enumerate(lits) if k.startswith('tmpl:G0 ')), default=None)
            if first_move is None:
                continue
            bracket = any(k == 'lit:G90' for k in lits[:first_move]) and any(k == 'lit:G91' for k in lits[last_move + 1:])
            absolute_words = False
            for e in f.elems:
                for cat in live_alts(p.st, e):
                    if isinstance(cat, Cat) and cat.skeleton().startswith('G0 '):
                        for letter, axis in (('X', 'X_AXIS'), ('Y', 'Y_AXIS'), ('Z', 'Z_AXIS')):
                            got = _arg(cat, letter)
                            if got is None:
                                continue
                            for g in live_alts(p.st, got):
                                if isinstance(g, Num) and g.p == axis_logical(I, '%s.%s' % (POS, axis)):
                                    absolute_words = True
            if absolute_words and not bracket:
                ctx.report('C03.R3', 'ExcludeRegionState.exitExcludedRegion', 'absolute words while the file is in G91',
                           'the re-positioning moves carry absolute coordinates but the printer is in relative '
                           'positioning mode (no G90/G91 bracket, no delta coordinates)',
                           detail={'result': f.describe()})


def path_rules(col, gcode, paths, I):
    """R2 on the handler level: entering paths, and the snapshot stays untouched while the episode is open"""
    declare(col)
    if gcode in ('G0', 'G1'):
        # the X/Y/Z words of the exit travel must reach the firmware as the numbers they stand for (C07.R1/R2)
        from . import rules_c07
        col.rule('C07.R1', 'C07: every synthesised command is one G/M code followed by distinct single-letter words', floor=4)
        col.rule('C07.R2', 'C07: every numeric word of the exit commands is rendered by an exponent-free formatter', floor=8)
        rules_c07.path_rules(col, gcode, paths, I, own=False)
    for p in paths:
        f = Facts(p, I)
        if not f.raised:
            col.instance('C03.R6', (gcode, f.pre_excluding, f.post_excluding()))
            if f.pre_excluding is True and f.post_excluding() is False and not (
                    ('ExcludeRegionState', 'exitExcludedRegion') in f.calls or ('ExcludeRegionState', 'resetState') in f.calls):
                col.report('C03.R6', 'GcodeHandlers.handleGcode', '%s closes the episode without exitExcludedRegion' % gcode,
                           'the episode flag is cleared on a path that does not go through the exit sequence',
                           detail={'entry': p.entry, 'decisions': f.decisions()})
            if f.pre_excluding is False and f.post_excluding() is True and ('ExcludeRegionState', 'enterExcludedRegion') not in f.calls:
                col.report('C03.R6', 'GcodeHandlers.handleGcode', '%s opens an episode without enterExcludedRegion' % gcode,
                           'the episode flag is set on a path that does not go through enterExcludedRegion',
                           detail={'entry': p.entry, 'decisions': f.decisions()})
        if not f.raised and f.pre_excluding is True and gcode in ('G0', 'G1', 'G2', 'G3') and f.pre_enabled is not False:
            moved = gcode in ('G2', 'G3') and ('ExcludeRegionState', 'processLinearMoves') in f.calls
            moved = moved or f.valued('X') or f.valued('Y') or f.valued('Z')
            if moved:
                col.instance('C03.R7', (gcode, f.describe(), tuple(f.decisions()[-4:])))
                if not f.region_tested:
                    col.report('C03.R7', 'ExcludeRegionState.processLinearMoves', '%s inside an episode is not tested against the regions' % gcode,
                               'a move with an X/Y/Z word is processed during an episode without testing its destination: if it '
                               'leaves the region the episode stays open and the printer is never re-positioned (%s)' % f.describe(),
                               detail={'entry': p.entry, 'decisions': f.decisions()})
                elif not f.any_excluded and f.post_excluding() is not False:
                    col.report('C03.R7', 'ExcludeRegionState.processLinearMoves', '%s leaves the region but the episode stays open' % gcode,
                               'the destination tested outside every region, yet the exit sequence is not produced',
                               detail={'entry': p.entry, 'decisions': f.decisions()})
        if not f.raised and f.pre_excluding is True and f.post_excluding() is False and gcode in ('G0', 'G1', 'G2', 'G3') \
                and f.kind == 'list' and ('ExcludeRegionState', 'exitExcludedRegion') in f.calls:
            leaving_rule(col, gcode, p, f, I)
        if not f.raised and f.pre_excluding is True and f.post_excluding() is True:
            col.instance('C03.R2', (gcode, 'inside', f.describe()))
            for e in p.st.trace:
                if e[0] == 'write' and (str(e[4]).startswith(LAST) or (e[1] == 'ExcludeRegionState' and e[2] == 'lastPosition')):
                    col.report('C03.R2', e[5] if isinstance(e[5], str) and e[5] != 'merged' else 'ExcludeRegionState.processLinearMoves',
                               'remembered position modified inside an episode (%s.%s)' % (str(e[4]).split('.')[-1], e[2]),
                               'the position remembered at entry stands for where the printer physically is; nothing moves it '
                               'while the episode is open, so it must not be rewritten by a suppressed command',
                               detail={'entry': p.entry, 'decisions': f.decisions()})
        if f.raised or not (f.pre_excluding is False and f.post_excluding() is True):
            continue
        col.instance('C03.R2', (gcode, f.describe(), tuple(f.decisions()[-5:])))
        lp = f.final(S_OID, 'lastPosition')
        for o in lp:
            if not isinstance(o, Obj):
                col.report('C03.R2', 'ExcludeRegionState.enterExcludedRegion', 'lastPosition not recorded',
                           'an episode is opened without remembering the position (%r)' % (o,))
                continue
            # the snapshot is a copy of the live axes at entry: same unit factor, offsets and mode (it is read at exit to order
            # the Z move, in the frame of the live axis)
            for axn in ('X_AXIS', 'Y_AXIS', 'Z_AXIS', 'E_AXIS'):
                for sa in live_alts(p.st, p.st.heap.get((o.oid, axn))):
                    if not isinstance(sa, Obj):
                        continue
                    live = '%s.%s' % (POS, axn)
                    for fld in ('unitMultiplier', 'offset', 'homeOffset'):
                        got = [vkey(x) for x in live_alts(p.st, p.st.heap.get((sa.oid, fld)))]
                        want = [vkey(x) for x in live_alts(p.st, p.st.heap.get((live, fld)))]
                        if got != want:
                            col.report('C03.R2', 'ExcludeRegionState.enterExcludedRegion',
                                       'remembered %s.%s is not the live axis\'s' % (axn, fld),
                                       'the position remembered at entry carries %s = %s while the live axis has %s: an object '
                                       'left over from an earlier episode is re-used, so after a change of units / offsets '
                                       'between two episodes the Z comparison at exit mixes frames' % (fld, got[:1], want[:1]),
                                       detail={'entry': p.entry, 'decisions': f.decisions()[-6:]})
                            break
            for z in live_alts(p.st, p.st.heap.get((o.oid, 'Z_AXIS'))):
                if not isinstance(z, Obj):
                    continue
                for v in live_alts(p.st, p.st.heap.get((z.oid, 'current'))):
                    deps = set()
                    if isinstance(v, Num):
                        for s in v.p.symbols():
                            deps.add(s)
                            deps |= I.symdeps(s)
                    kinds = f.elem_kinds()
                    forwarded = any('CMD' in k for k in kinds)
                    if 'p:Z' in deps and not forwarded:
                        col.report('C03.R2', 'ExcludeRegionState.enterExcludedRegion',
                                   'remembered Z depends on the dropped command',
                                   'the Z height compared at exit is the target of the entering move, which is never '
                                   'executed: a Z change on the entering move is lost',
                                   detail={'entry': p.entry, 'decisions': f.decisions()})


def leaving_rule(col, gcode, p, f, I):
    """the travel generated when a move leaves the region must go where the file is after that move"""
    from .pathfacts import CMDKEY, exact_tracking
    col.instance('C03.R8', (gcode, f.describe(), tuple(f.decisions()[-5:])))
    detail = {'entry': p.entry, 'result': f.describe(), 'decisions': f.decisions()[-10:]}
    for (fn, construct, msg) in exact_tracking(f, gcode):
        col.report('C03.R8', fn, construct + ' on the leaving move', msg, detail=detail)
    words = {}
    for e in f.elems:
        for cat in live_alts(p.st, e):
            if not isinstance(cat, Cat):
                continue
            sk = cat.skeleton()
            if not sk.startswith('G0 '):
                continue
            for letter in template_letters(sk):
                if letter in 'XYZ':
                    words.setdefault(letter, []).append(_arg(cat, letter))
    for axis, letter in (('X_AXIS', 'X'), ('Y_AXIS', 'Y'), ('Z_AXIS', 'Z')):
        aoid = '%s.%s' % (POS, axis)
        off = Poly.sym(aoid + '.offset') + Poly.sym(aoid + '.homeOffset')
        u = Poly.sym(aoid + '.unitMultiplier')
        statuses = [frozenset(['V']), frozenset(['A', 'F'])] if gcode in ('G0', 'G1') else [None]
        for status in statuses:
            if status is not None and not (f.pstatus(letter) & status):
                continue
            for mode in ((True, False) if gcode in ('G0', 'G1') else (True,)):
                assume = {('fld', aoid, 'absoluteMode'): frozenset([mode])}
                if status is not None:
                    assume[('param', CMDKEY, letter)] = status
                from .pathfacts import consistent
                if not consistent(p.st, assume):
                    continue
                finals = [v for v in f.final(aoid, 'current', assume)]
                if len(finals) != 1 or not isinstance(finals[0], Num):
                    continue
                want = (finals[0].p - off).div(u)
                if want is None:
                    continue
                got = words.get(letter, [])
                if not got:
                    if letter != 'Z':
                        col.report('C03.R8', 'ExcludeRegionState.exitExcludedRegion', '%s: no %s word in the exit travel' % (gcode, letter),
                                   'the printer is not re-positioned in %s' % letter, detail=detail)
                        continue
                    # no Z move: the printer stays at the height remembered at entry, which must be the file's height now
                    oldz = Poly.sym(LAST + '.Z_AXIS.current')       # native height the printer is physically at
                    st2 = p.st
                    signs = I.infer_signs(st2, finals[0].p - oldz)
                    if set(signs) != {0}:
                        col.report('C03.R8', 'ExcludeRegionState.exitExcludedRegion',
                                   '%s leaves the region without a Z move although the final Z may differ from the remembered Z' % gcode,
                                   'the printer stays at the native height it had when the episode began (%r) but the file is at '
                                   'native %r after this command; sign of the difference on this path: %s' % (oldz, finals[0].p, sorted(signs)),
                                   detail=detail)
                    continue
                for g in got:
                    for a in live_alts(p.st, g, assume):
                        if not (isinstance(a, Num) and a.p == want):
                            col.report('C03.R8', 'ExcludeRegionState.exitExcludedRegion',
                                       '%s: %s word of the exit travel is not the final tracked %s' % (gcode, letter, letter),
                                       'the generated travel goes to %s=%r but after this command the file is at %r (a word taken '
                                       'from the position before the command was applied?)' % (letter, getattr(a, 'p', a), want),
                                       detail=detail)


def writers_rule(ctx):
    stores = census.attr_stores(ctx.model, 'excluding')
    for (q, val, line, mod, aug) in stores:
        ctx.instance('C03.R6', (q, ast.unparse(val) if val is not None else 'del'))
        v = val.value if isinstance(val, ast.Constant) else '?'
        if v == '?':
            continue        # computed value (helper/setter): decided on the abstract paths below (flag transitions)
        fn = q.split('.')[-1]
        if v is False and census.only_reached_through(ctx.model, q, ('ExcludeRegionState.exitExcludedRegion', 'ExcludeRegionState.resetState')):
            continue
        if v is True and census.only_reached_through(ctx.model, q, ('ExcludeRegionState.enterExcludedRegion',)):
            continue
        ctx.report('C03.R6', q, 'excluding = %s' % (ast.unparse(val) if val is not None else 'del'),
                   'the episode flag is written outside enterExcludedRegion / exitExcludedRegion / resetState',
                   file=ctx.model.relpath(ctx.model.paths[mod]), line=line)


def run(ctx, tier):
    declare(ctx)
    I = make_interp(ctx.model, unroll=2 if tier == 'thorough' else 1)
    n = exit_rules(ctx, I, {('fld', S_OID, 'excluding'): [True]}, 'exitExcludedRegion')
    if n == 0:
        from .model import AnalysisError
        raise AnalysisError('no exit path found')
    mode_rule(ctx, I)
    run_path_rules(ctx, __name__, 'path_rules', ['G0', 'G1', 'G2', 'G3', 'G10', 'G11', 'G92', 'M999'], unroll=1)
    writers_rule(ctx)
    from .rules_c19 import tokeniser_premise
    tokeniser_premise(ctx)
    from .rules_c08 import frame_premise, state_code_premise
    frame_premise(ctx)
    state_code_premise(ctx)
    ctx.assume('the firmware maps logical to native coordinates as logical*unit + G92 offset + M206 offset '
               '(the convention AxisPosition.logicalToNative implements); exact real arithmetic')
    ctx.assume('tracked position equals the file position (C01.R6, C08 laws); no homing/G92 XYZ/M206 inside an episode')
