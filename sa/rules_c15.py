"""C15 - a print that ends while excluding is cleaned up exactly once."""
from .entries import make_interp, new_plugin_state, Path
from .pathfacts import Facts, live_alts, classify, S_OID
from .plugin import effects
from .values import NONE, Num, Str, SStr, Obj, TupleV, Opaque
from .absint import Raised

PROP = 'C15'


def declare(c):
    c.rule('C15.R1', 'handleScriptHook contributes (exit commands as prefix, no postfix) iff script is gcode/'
                     'afterPrintDone, a print is active and an episode is open; otherwise None and no effect', floor=8)
    c.rule('C15.R3', 'the prefix is a fresh list: the configured enter/exit script lists are neither handed out nor '
                     'mutated, so the next clean-up contributes the configured script once and nothing stale', floor=2)
    c.rule('C15.R2', 'the contributing path closes the episode, so a repeated invocation contributes nothing', floor=2)


def run(ctx, tier):
    declare(ctx)
    I = make_interp(ctx.model, unroll=2 if tier == 'thorough' else 1)
    cases = [(Str('gcode'), Str('afterPrintDone'), True), (Str('gcode'), Str('beforePrintStarted'), False),
             (Str('gcode'), Str('afterPrintCancelled'), False), (Str('other'), Str('afterPrintDone'), False),
             (SStr('TYPE'), SStr('NAME'), None)]
    for stype, sname, match in cases:
        st, P, H, S = new_plugin_state(I)
        res = I.run_method(st, 'ExcludeRegionPlugin', 'handleScriptHook', P, [Opaque('comm'), stype, sname])
        for (s, v) in res:
            p = Path('handleScriptHook', s, v, {})
            f = Facts(p, I)
            active = p.fld('P', '_activePrintJob')
            excluding = f.pre_excluding
            m = match
            if m is None:
                # symbolic names: matched iff both comparisons were decided equal
                m = any(k[0] == 'valueof' and ('is', ('str', 'gcode')) in v2 for k, v2 in s.dom.items()) and \
                    any(k[0] == 'valueof' and ('is', ('str', 'afterPrintDone')) in v2 for k, v2 in s.dom.items())
            should = bool(m and active is True and excluding is True)
            tag = '%s/%s active=%s excluding=%s' % (getattr(stype, 's', '?'), getattr(sname, 's', '?'), active, excluding)
            ctx.instance('C15.R1', (tag, repr(v)[:40]))
            where = 'ExcludeRegionPlugin.handleScriptHook'
            if isinstance(v, Raised):
                ctx.report('C15.R1', where, tag + ' raises', repr(v))
                continue
            contributes = v is not NONE
            if contributes != should:
                ctx.report('C15.R1', where, tag + (' contributes' if contributes else ' contributes nothing'),
                           'the script hook %s although the property requires %s' %
                           ('contributes' if contributes else 'returns None', 'a contribution' if should else 'none'))
                continue
            if not contributes:
                eff = effects(p)
                if eff:
                    ctx.report('C15.R1', where, tag + ' has effects', 'a non-contributing invocation changes state: %s' % eff[:3])
                continue
            ok = isinstance(v, TupleV) and len(v.elems) == 2 and v.elems[1] is NONE and isinstance(v.elems[0], Obj) \
                and v.elems[0].oid in s.seqs
            if not ok:
                ctx.report('C15.R1', where, tag + ' result shape %r' % (v,),
                           'the contribution must be (prefix commands, None)')
                continue
            kinds = [sorted(set(classify(a) for a in live_alts(s, e)))[0] for e in s.seqs[v.elems[0].oid]]
            if 'tmpl:G92 E{}' not in kinds or not any(k.startswith('tmpl:G0 ') for k in kinds):
                ctx.report('C15.R1', where, tag + ' prefix %s' % kinds, 'the prefix is not the exit re-synchronisation sequence')
            ctx.instance('C15.R3', tag)
            scripts = tuple(o for o in s.seqs if str(o).endswith('.enteringExcludedRegionGcode') or str(o).endswith('.exitingExcludedRegionGcode'))
            if v.elems[0].oid in scripts:
                ctx.report('C15.R3', where, 'configured script list handed out',
                           'the prefix is the configured script list itself: OctoPrint (and the exit code) extend it, so the '
                           'next clean-up repeats commands of this one')
            for e in s.trace:
                if e[0].startswith('seq-') and e[1] in scripts:
                    ctx.report('C15.R3', e[-1] if isinstance(e[-1], str) and '.' in e[-1] else where,
                               'configured script list mutated (%s)' % e[0],
                               're-synchronisation commands of this episode are appended to a configured script: every later '
                               'exit or clean-up replays them, with stale coordinates')
                    break
            ctx.instance('C15.R2', tag)
            if f.post_excluding() is not False:
                ctx.report('C15.R2', where, 'episode left open', 'after contributing the filter is still excluding: the '
                           'clean-up would be contributed again')
            ctx.sample({'case': tag, 'prefix': kinds})
    # "no print is active" after an end event is a statement about the event machine: C11.R1 / R3 are premises here
    from . import rules_c11
    ctx.rule('C11.R1', 'C11: event machine - started => active; done / failed / cancelling / cancelled / error => inactive, whatever the filter state', floor=20)
    ctx.rule('C11.R3', 'C11: the active-print flag is written only by __init__, initialize and on_event', floor=3)
    rules_c11.event_rule(ctx, make_interp(ctx.model))
    rules_c11.writers_rule(ctx)
    # what the hook contributes is the exit sequence: held to the composition and value rules of C03
    from . import rules_c03
    from .pathfacts import S_OID as _S
    ctx.rule('C03.R1', 'C03: exit composition - pending, exit script, G92 E, then Z before XY iff rising / after iff falling / absent iff equal', floor=6)
    ctx.rule('C03.R4', 'C03: every word of the exit commands is the logical value of the tracked native position', floor=6)
    rules_c03.exit_rules(ctx, make_interp(ctx.model), {('fld', _S, 'excluding'): [True]}, 'exitExcludedRegion (script hook)')
    ctx.assume('the deferred-command part of the exit sequence is decided by C06')
    ctx.assume('OctoPrint calls the script hook before it fires the print-done event (ordering is outside the repository)')
