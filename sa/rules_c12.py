"""C12 - the excluded area never shrinks during an active print unless explicitly allowed."""
import ast

from .entries import make_interp, run_plugin_method, run_state_method
from .pathfacts import Facts, live_alts
from .plugin import effects, region_mutations, notifications, is_error_tuple, REGIONS
from .values import NONE, Num, Str, SStr, Obj, TupleV, Opaque
from .absint import Raised
from . import census

PROP = 'C12'
GUARD = {('fld', 'P', '_activePrintJob'): [True], ('fld', 'P', 'mayShrinkRegionsWhilePrinting'): [False]}
GEOMETRY = ('x1', 'y1', 'x2', 'y2', 'cx', 'cy', 'r', 'id')


def declare(c):
    c.rule('C12.R1', 'while printing with shrinking disallowed a delete request is refused without any effect', floor=1)
    c.rule('C12.R2', 'while printing with shrinking disallowed an update replaces a region only after '
                     'new.containsRegion(old) returned True; refused requests have no effect', floor=3)
    c.rule('C12.R5', 'whatever the API command (add, delete, unknown), under the restriction the region list is only appended '
                     'to (add) or a region is replaced after new.containsRegion(old) returned True', floor=6)
    c.rule('C12.R4', 'API-reachable writers of the region list: append, guarded delete, guarded replace only', floor=3)
    c.rule('C12.R6', 'region geometry is assigned only in the constructors (regions are immutable values)', floor=8)


def region_arg():
    return Opaque('newRegion')


def delete_rule(ctx, I):
    for entry, args in (('_handleDeleteExcludeRegion', [SStr('ID')]),
                        ('on_api_command', [Str('deleteExcludeRegion'), Opaque('data')])):
        restrict = dict(GUARD)
        restrict[('truthy', ('opaque', 'flask_login.current_user.is_anonymous()'))] = [False]
        paths = run_plugin_method(I, entry, args, restrict=restrict)
        for p in paths:
            ctx.instance('C12.R1', (entry, repr(p.ret)[:60]))
            muts = region_mutations(p)
            eff = [e for e in effects(p)]
            if muts or not is_error_tuple(p.ret) or eff:
                ctx.report('C12.R1', 'ExcludeRegionPlugin.%s' % entry, 'delete while printing -> %r' % (p.ret,),
                           'a delete request during an active print (shrinking disallowed) is not refused cleanly: '
                           'mutations=%s effects=%s' % ([m[1] for m in muts], eff[:3]))


def _check_replacement(ctx, p, I, entry, newkey, rule='C12.R2', what='update'):
    """one accepting path: exactly one in-place replacement, dominated by new.containsRegion(old)=True on the
    element selected by id equality"""
    muts = region_mutations(p)
    where = 'ExcludeRegionState.replaceRegion'
    if [m[1] for m in muts] != ['seq-set']:
        ctx.report(rule, where, 'update mutations %s' % [m[1] for m in muts],
                   'an update must be exactly one in-place replacement')
        return
    i = muts[0][0]
    ev = p.st.trace[i]
    newv = ev[3]
    tests = [(j, e) for j, e in enumerate(p.st.trace[:i]) if e[0] == 'regiontest' and e[1] == 'containsRegion']
    proven = None
    for j, e in tests:
        from .values import vkey
        key = ('regiontest', 'containsRegion', vkey(e[2]), tuple(vkey(a) for a in e[3]))
        if p.st.dom.get(key) == frozenset([True]) and vkey(e[2]) == newkey:
            proven = e
    if proven is None:
        ctx.report(rule, where, 'replacement without containment proof (%s)' % what,
                   'the stored region is replaced although new.containsRegion(old) was not established before the '
                   'store (guard missing, inverted, evaluated after the store, or with swapped roles)',
                   detail={'entry': entry, 'decisions': Facts(p, I).decisions()})
        return
    arg = proven[3][0] if proven[3] else None
    if not (isinstance(arg, Obj) and arg.oid.startswith('regions[')):
        ctx.report(rule, where, 'containment argument %r' % (arg,), 'containsRegion is not applied to the stored region')
        return
    from .values import vkey
    if vkey(newv) != newkey:
        ctx.report(rule, where, 'stored value %r' % (newv,), 'the value stored is not the requested region')
    idok = any(k[0] == 'eq' and arg.oid in repr(k) and v == frozenset([True]) for k, v in p.st.dom.items())
    if not idok:
        ctx.report(rule, where, 'replacement without id match',
                   'the replaced region was not selected by id equality with the new region')
    # the slot written is the slot the contained region was read from
    idx = ev[2]
    if repr(getattr(idx, 'p', idx)) not in arg.oid:
        ctx.report(rule, where, 'replacement of another slot',
                   'the region proven to be contained and the slot overwritten differ (%s vs %r)' % (arg.oid, idx))


def update_rule(ctx, I):
    from .plugin import install_region_summaries, api_data, new_region
    from .values import vkey
    install_region_summaries(I)
    cases = []
    for cls in ('RectangularRegion', 'CircularRegion'):
        cases.append(('_handleUpdateExcludeRegion', cls, None))
        cases.append(('on_api_command', cls, 'updateExcludeRegion'))
    # every other request kind goes through the same obligations: whatever the command, under the restriction the only
    # mutations are an append (add) or a replacement proven to contain the stored region
    for cls in ('RectangularRegion', 'CircularRegion'):
        for cmd in ('addExcludeRegion', 'deleteExcludeRegion', 'someOtherCommand'):
            cases.append(('on_api_command', cls, cmd))
    for entry, cls, cmd in cases:
        restrict = dict(GUARD)
        restrict[('truthy', ('opaque', 'flask_login.current_user.is_anonymous()'))] = [False]
        holder = {}

        def prep(I, st, P, H, S, cls=cls, cmd=cmd, holder=holder):
            if cmd is None:
                holder['args'] = [new_region(st, cls)]
            else:
                holder['args'] = [Str(cmd), api_data(st, cls)]
        # the arguments are created inside the prepared state
        from .entries import new_plugin_state, Path
        st, P, H, S = new_plugin_state(I)
        for k, v in restrict.items():
            st.restrict(k, frozenset(v))
        prep(I, st, P, H, S)
        res = I.run_method(st, 'ExcludeRegionPlugin', entry, P, holder['args'])
        paths = [Path(entry, s, v, {}) for (s, v) in res]
        naccept = 0
        for p in paths:
            muts = region_mutations(p)
            ctx.instance('C12.R2', (entry, cls, repr(p.ret)[:40], tuple(m[1] for m in muts)))
            if isinstance(p.ret, Raised):
                ctx.report('C12.R2' if cmd in (None, 'updateExcludeRegion') else 'C12.R5', 'ExcludeRegionPlugin.%s' % entry,
                           '%s raises %s' % (cmd or 'update', p.ret.exc), repr(p.ret))
                continue
            is_update = cmd in (None, 'updateExcludeRegion')
            if not is_update:
                ctx.instance('C12.R5', (entry, cls, cmd, repr(p.ret)[:40], tuple(m[1] for m in muts)))
                kinds = [m[1] for m in muts]
                if kinds == ['seq-append'] and cmd == 'addExcludeRegion':
                    continue
                if not kinds:
                    continue
                if kinds == ['seq-set']:
                    created = [e for e in p.st.trace if e[0] == 'new' and e[1] == cls]
                    _check_replacement(ctx, p, I, entry, ('obj', created[-1][2]) if created else None, rule='C12.R5',
                                       what='%s request' % cmd)
                    continue
                ctx.report('C12.R5', 'ExcludeRegionPlugin.%s' % entry, '%s mutates the region list by %s' % (cmd, kinds),
                           'during an active print with shrinking disallowed this request changes the region list in a way '
                           'that is neither an append nor a containing replacement')
                continue
            if not muts:
                eff = effects(p)
                if eff or notifications(p):
                    ctx.report('C12.R2', 'ExcludeRegionPlugin.%s' % entry, 'refused update has effects',
                               'a refused update changes state or notifies: %s' % eff[:3])
                if not is_error_tuple(p.ret):
                    ctx.report('C12.R2', 'ExcludeRegionPlugin.%s' % entry, 'silent refusal -> %r' % (p.ret,),
                               'an update that changed nothing must be answered with an error')
                continue
            naccept += 1
            ev = p.st.trace[muts[0][0]]
            newv = ev[3] if len(ev) > 3 else None
            if cmd is None:
                newkey = vkey(holder['args'][0])
            else:
                created = [e for e in p.st.trace if e[0] == 'new' and e[1] == cls]
                newkey = ('obj', created[-1][2]) if created else None
            _check_replacement(ctx, p, I, entry, newkey)
        if naccept == 0 and cmd in (None, 'updateExcludeRegion'):
            ctx.report('C12.R2', 'ExcludeRegionPlugin.%s' % entry, 'no accepting path (%s)' % cls,
                       'no path accepts a containing update: growing a region during a print is impossible')
        ctx.sample({'rule': 'C12.R2', 'entry': entry, 'class': cls, 'paths': len(paths), 'accepting': naccept})


def writers_rule(ctx, I):
    m = ctx.model
    # syntactic census of list mutations on `.excludedRegions`
    allowed = {'ExcludeRegionState.addRegion': ('append',), 'ExcludeRegionState.deleteRegion': ('del[]',),
               'ExcludeRegionState.replaceRegion': ('[]=',)}
    muts = census.method_calls_on_attr(m, 'excludedRegions', ('append', 'extend', 'insert', 'pop', 'remove', 'clear',
                                                               'sort', 'reverse'))
    for (q, meth, line) in muts:
        ctx.instance('C12.R4', (q, meth))
        if not any(meth in ms and census.only_reached_through(m, q, (owner,)) for owner, ms in allowed.items()):
            ctx.report('C12.R4', q, 'excludedRegions.%s' % meth, 'unexpected writer of the region list', line=line)
    for (q, val, line, mod, aug) in census.attr_stores(m, 'excludedRegions'):
        ctx.instance('C12.R4', (q, 'store'))
        if not census.only_reached_through(m, q, ('ExcludeRegionState.resetState',)):
            ctx.report('C12.R4', q, 'excludedRegions = ...', 'the region list is replaced outside resetState', line=line)
    # resetState is not reachable from the API entry points
    from .plugin import api_data
    from .entries import new_plugin_state, Path
    for cmd in ('addExcludeRegion', 'updateExcludeRegion', 'deleteExcludeRegion', 'bogus'):
        st, P, H, S = new_plugin_state(I)
        data = api_data(st, 'CircularRegion')
        paths = [Path('on_api_command', s2, v, {}) for (s2, v) in
                 I.run_method(st, 'ExcludeRegionPlugin', 'on_api_command', P, [Str(cmd), data])]
        for p in paths:
            ctx.instance('C12.R4', ('api', cmd, len(p.st.trace)))
            if any(e[0] == 'call' and e[2] == 'resetState' for e in p.st.trace):
                ctx.report('C12.R4', 'ExcludeRegionPlugin.on_api_command', '%s reaches resetState' % cmd,
                           'an API request can reset the state (and the region list)')
            for (i, kind) in region_mutations(p):
                if kind not in ('seq-append', 'seq-del', 'seq-set'):
                    ctx.report('C12.R4', 'ExcludeRegionPlugin.on_api_command', '%s mutates regions by %s' % (cmd, kind),
                               'unexpected kind of region-list mutation from the API')
                if kind == 'seq-append' and cmd != 'addExcludeRegion':
                    ctx.report('C12.R4', 'ExcludeRegionPlugin.on_api_command', '%s appends' % cmd, 'wrong command appends')


def geometry_rule(ctx):
    m = ctx.model
    for attr in GEOMETRY:
        for (q, val, line, mod, aug) in census.attr_stores(m, attr):
            cls = q.split('.')[0]
            if cls not in ('RectangularRegion', 'CircularRegion'):
                if attr == 'id':
                    continue
                ctx.instance('C12.R6', (q, attr))
                ctx.report('C12.R6', q, '.%s = ...' % attr, 'region geometry is written outside the region classes', line=line)
                continue
            ctx.instance('C12.R6', (q, attr))
            if not census.only_reached_through(m, q, ('%s.__init__' % cls,)):
                ctx.report('C12.R6', q, '.%s = ...' % attr,
                           'region geometry is modified after construction: a stored region could shrink in place '
                           'without passing the containment test', line=line)


def run(ctx, tier):
    declare(ctx)
    I = make_interp(ctx.model, unroll=2 if tier == 'thorough' else 1)
    delete_rule(ctx, I)
    update_rule(ctx, I)
    writers_rule(ctx, I)
    ctx.rule('C12.R7', 'mayShrinkRegionsWhilePrinting is refreshed from the stored setting on every path of the settings '
                       'handler, exceptional ones included', floor=2)
    from .rules_c11 import settings_refresh_rule
    settings_refresh_rule(ctx, make_interp(ctx.model), 'C12.R7', 'mayShrinkRegionsWhilePrinting')
    # "while a print is active" is a statement about the event machine (paused is still printing): C11.R1 / R3 are premises
    from . import rules_c11
    ctx.rule('C11.R1', 'C11: event machine - started => active; done / failed / cancelling / cancelled / error => inactive; no other '
                       'event (pause, resume, ...) changes the active-print flag', floor=20)
    ctx.rule('C11.R3', 'C11: the active-print flag is written only by __init__, initialize and on_event', floor=3)
    rules_c11.event_rule(ctx, make_interp(ctx.model))
    rules_c11.writers_rule(ctx)
    geometry_rule(ctx)
    # the containment predicates the guard relies on (same rules as C17.R1/R3/R4)
    from . import rules_c17
    rules_c17.declare(ctx)
    I17 = make_interp(ctx.model, modular=False)
    I17.merge_ifs = False
    rules_c17.point_rules(ctx, I17)
    rules_c17.ctor_rules(ctx, I17)
    rules_c17.region_rules(ctx, I17)
    rules_c17.exhaustive_rule(ctx, I17)
    rules_c17.nan_rules(ctx, I17)
    ctx.assume('regions are only reachable through the state list; convexity argument of C17 not decided')
