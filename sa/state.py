"""Abstract state: heap, sequences, maps, path decisions, event trace."""


class State(object):
    __slots__ = ('heap', 'cls', 'seqs', 'maps', 'dom', 'trace', 'n', 'declog', 'flags')

    def __init__(self):
        self.heap = {}     # (oid, attr) -> value
        self.cls = {}      # oid -> class name
        self.seqs = {}     # oid -> tuple of elements (list objects)
        self.maps = {}     # oid -> tuple of items ('kv', key, value) | ('star', tag)
        self.dom = {}      # decision key -> frozenset of still-possible values
        self.trace = []    # events (tuples)
        self.n = 0
        self.declog = []   # (key, frozenset) in decision order
        self.flags = set()

    def clone(self):
        s = State()
        s.heap = dict(self.heap)
        s.cls = dict(self.cls)
        s.seqs = dict(self.seqs)
        s.maps = dict(self.maps)
        s.dom = dict(self.dom)
        s.trace = list(self.trace)
        s.n = self.n
        s.declog = list(self.declog)
        s.flags = set(self.flags)
        return s

    def new_oid(self, cls, hint=None):
        self.n += 1
        oid = '%s#%d' % (hint or cls, self.n)
        self.cls[oid] = cls
        return oid

    def ev(self, *event):
        self.trace.append(event)

    def restrict(self, key, values):
        values = frozenset(values)
        self.dom[key] = values
        self.declog.append((key, values))
