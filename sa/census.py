"""Syntactic writer census over the package (component B, receiver-insensitive and therefore conservative)."""
import ast


def functions(model):
    """yield (class name | None, FunctionDef, module)"""
    for cname, ci in sorted(model.classes.items()):
        for group in (ci.methods, ci.props, ci.setters):
            for fn in group.values():
                yield cname, fn, ci.module
    for (mod, name), fn in sorted(model.functions.items()):
        yield None, fn, mod


def attr_stores(model, attr, only_foreign=None):
    """[(qualname, value node, lineno, module)] for every assignment `<expr>.attr = value` / augmented"""
    out = []
    for cname, fn, mod in functions(model):
        q = '%s.%s' % (cname, fn.name) if cname else fn.name
        for n in ast.walk(fn):
            targets = []
            if isinstance(n, ast.Assign):
                targets = [(t, n.value) for t in n.targets]
            elif isinstance(n, ast.AugAssign):
                targets = [(n.target, n.value)]
            elif isinstance(n, ast.Delete):
                targets = [(t, None) for t in n.targets]
            for t, val in targets:
                for tt in ([t] if not isinstance(t, (ast.Tuple, ast.List)) else t.elts):
                    if isinstance(tt, ast.Attribute) and tt.attr == attr:
                        if only_foreign and isinstance(tt.value, ast.Name) and tt.value.id == 'self' and cname not in only_foreign:
                            continue        # the class's own field of the same name
                        out.append((q, val, n.lineno, mod, isinstance(n, ast.AugAssign)))
    return out


def method_calls_on_attr(model, attr, methods):
    """[(qualname, method, lineno)] for calls `<expr>.attr.<method>(...)`, `del <expr>.attr[...]`, `<expr>.attr[...] = `"""
    out = []
    for cname, fn, mod in functions(model):
        q = '%s.%s' % (cname, fn.name) if cname else fn.name
        for n in ast.walk(fn):
            if isinstance(n, ast.Call) and isinstance(n.func, ast.Attribute) and n.func.attr in methods:
                recv = n.func.value
                if isinstance(recv, ast.Attribute) and recv.attr == attr:
                    out.append((q, n.func.attr, n.lineno))
            if isinstance(n, (ast.Assign, ast.Delete, ast.AugAssign)):
                tgts = n.targets if not isinstance(n, ast.AugAssign) else [n.target]
                for t in tgts:
                    if isinstance(t, ast.Subscript) and isinstance(t.value, ast.Attribute) and t.value.attr == attr:
                        out.append((q, 'del[]' if isinstance(n, ast.Delete) else '[]=', n.lineno))
    return out


def call_graph(model):
    """name-based call graph: {callee simple name: set of caller qualnames}; receiver-insensitive (conservative)"""
    cached = getattr(model, '_callers', None)
    if cached is not None:
        return cached
    callers = {}
    quals = {}
    for cname, fn, mod in functions(model):
        q = '%s.%s' % (cname, fn.name) if cname else fn.name
        quals.setdefault(fn.name, set()).add(q)
        for n in ast.walk(fn):
            name = None
            if isinstance(n, ast.Call):
                if isinstance(n.func, ast.Attribute):
                    name = n.func.attr
                elif isinstance(n.func, ast.Name):
                    name = n.func.id
            elif isinstance(n, ast.Attribute) and isinstance(n.ctx, ast.Load):
                name = n.attr          # properties and bound-method references
            if name:
                callers.setdefault(name, set()).add(q)
    model._callers = (callers, quals)
    return model._callers


def only_reached_through(model, qual, allowed):
    """True when `qual` is in `allowed`, or it is a helper: it has callers and every chain of callers reaches an allowed
    function before reaching a function without callers (an entry point).  Lets a write move into an extracted helper."""
    callers, quals = call_graph(model)
    allowed = set(allowed)
    seen = set()
    work = [qual]
    while work:
        q = work.pop()
        if q in allowed or q in seen:
            continue
        seen.add(q)
        simple = q.split('.')[-1]
        cs = set(c for c in callers.get(simple, ()) if c != q)
        if not cs:
            return False
        work.extend(cs)
    return True


# ---- module-level / class-level tables that may change at run time ----------------------------------------------
READ_METHODS = frozenset(['get', 'items', 'keys', 'values', 'copy', 'index', 'count', '__contains__', '__getitem__',
                          'union', 'intersection', 'difference', 'issubset', 'issuperset', 'isdisjoint'])
WRITE_METHODS = frozenset(['append', 'extend', 'insert', 'remove', 'pop', 'popitem', 'clear', 'update', 'setdefault',
                           'add', 'discard', 'sort', 'reverse', '__setitem__', '__delitem__'])
PURE_CONSUMERS = frozenset(['len', 'dict', 'list', 'tuple', 'set', 'frozenset', 'sorted', 'iter', 'enumerate', 'zip', 'any',
                            'all', 'max', 'min', 'sum', 'isinstance', 'reversed', 'map', 'filter', 'str', 'repr', 'bool', 'next'])


def _is_mutable_display(node):
    if isinstance(node, (ast.Dict, ast.List, ast.Set, ast.DictComp, ast.ListComp, ast.SetComp)):
        return True
    if isinstance(node, ast.Call) and isinstance(node.func, ast.Name) and node.func.id in ('dict', 'list', 'set', 'bytearray'):
        return True
    if isinstance(node, ast.Call) and isinstance(node.func, ast.Attribute) and node.func.attr == 'fromkeys':
        return True
    return False


def _parents(fn):
    par = {}
    for n in ast.walk(fn):
        for c in ast.iter_child_nodes(n):
            par[c] = n
    return par


def _classify_use(model, fn, par, occ, depth):
    """'read' | ('write', lineno, what) | ('escape', lineno, what) for one occurrence of a table (or of an alias of it)"""
    P = par.get(occ)
    line = getattr(occ, 'lineno', 0)
    if P is None:
        return 'read'
    if isinstance(P, ast.Subscript) and P.value is occ:
        if isinstance(P.ctx, ast.Load):
            return 'read'
        return ('write', line, 'item assignment / deletion')
    if isinstance(P, ast.Attribute) and P.value is occ:
        G = par.get(P)
        if isinstance(G, ast.Call) and G.func is P:
            if P.attr in READ_METHODS:
                return 'read'
            if P.attr in WRITE_METHODS:
                return ('write', line, '.%s()' % P.attr)
        return ('escape', line, '.%s' % P.attr)
    if isinstance(P, ast.Compare):
        return 'read'
    if isinstance(P, (ast.For, ast.comprehension)) and P.iter is occ:
        return 'read'
    if isinstance(P, ast.Starred):
        return 'read'
    if isinstance(P, ast.keyword) and P.arg is None:
        return 'read'
    if isinstance(P, ast.AugAssign) and P.target is occ:
        return ('write', line, 'augmented assignment')
    if isinstance(P, ast.Call) and (occ in P.args or any(k.value is occ for k in P.keywords)):
        f = P.func
        if isinstance(f, ast.Name) and f.id in PURE_CONSUMERS:
            return 'read'
        if isinstance(f, ast.Attribute) and f.attr in ('join', 'format', 'get', 'startswith', 'endswith', 'isdisjoint', 'issubset',
                                                        'issuperset', 'union', 'intersection', 'difference', 'debug', 'info', 'warning', 'error'):
            return 'read'
        # a call into the package: follow the parameter one level
        name = f.attr if isinstance(f, ast.Attribute) else (f.id if isinstance(f, ast.Name) else None)
        cands = [(c, g, m) for (c, g, m) in functions(model) if g.name == name]
        if depth > 0 and len(cands) == 1 and occ in P.args:
            c, g, m = cands[0]
            params = [a.arg for a in g.args.args]
            if c is not None and params and params[0] in ('self', 'cls') and isinstance(f, ast.Attribute):
                params = params[1:]
            idx = P.args.index(occ)
            if idx < len(params):
                return _classify_name(model, g, params[idx], depth - 1)
        return ('escape', line, 'passed to %s()' % (name or '?'))
    if isinstance(P, ast.Assign) and P.value is occ and len(P.targets) == 1 and isinstance(P.targets[0], ast.Name) and depth > 0:
        return _classify_name(model, fn, P.targets[0].id, depth - 1, skip=P.targets[0])
    if isinstance(P, (ast.BoolOp, ast.IfExp)):
        return _classify_use(model, fn, par, P, depth)
    if isinstance(P, (ast.If, ast.While, ast.Assert, ast.UnaryOp)):
        return 'read'
    return ('escape', line, type(P).__name__)


def _classify_name(model, fn, name, depth, skip=None):
    par = _parents(fn)
    worst = 'read'
    for n in ast.walk(fn):
        if isinstance(n, ast.Name) and n.id == name and n is not skip and isinstance(n.ctx, ast.Load):
            r = _classify_use(model, fn, par, n, depth)
            if r != 'read':
                if r[0] == 'write':
                    return r
                worst = r
    return worst


def mutable_tables(model):
    """{(module|class, NAME): (kind, qualname, lineno, what)} for module-level and class-level containers that some
    function of the package may change at run time (kind 'write'), or lets escape to code the census cannot follow
    ('escape').  The abstract interpreter must not read such a table as a constant: its content depends on the history."""
    cached = getattr(model, '_mutable_tables', None)
    if cached is not None:
        return cached
    tables = {}
    for (mod, name), node in model.consts.items():
        if _is_mutable_display(node):
            tables[name] = (mod, name)
    out = {}
    if tables:
        for cname, fn, mod in functions(model):
            q = '%s.%s' % (cname, fn.name) if cname else fn.name
            par = _parents(fn)
            for n in ast.walk(fn):
                nm = None
                if isinstance(n, ast.Name) and n.id in tables and isinstance(n.ctx, ast.Load):
                    nm = n.id
                elif isinstance(n, ast.Attribute) and n.attr in tables and isinstance(n.ctx, ast.Load) and n.attr.isupper():
                    nm = n.attr
                if nm is None:
                    continue
                r = _classify_use(model, fn, par, n, 2)
                if r == 'read':
                    continue
                key = tables[nm]
                old = out.get(key)
                if old is None or (old[0] == 'escape' and r[0] == 'write'):
                    out[key] = (r[0], q, r[1], r[2])
    model._mutable_tables = out
    return out


# ---- decorators ------------------------------------------------------------------------------------------------------
PLAIN_DECORATORS = frozenset(['property', 'staticmethod', 'classmethod', 'abstractmethod'])
MEMO_DECORATORS = frozenset(['lru_cache', 'cache', 'cached_property', 'memoize', 'memoized'])


def _decorator_name(d):
    if isinstance(d, ast.Call):
        d = d.func
    if isinstance(d, ast.Attribute):
        return d.attr, (d.value.id if isinstance(d.value, ast.Name) else None)
    if isinstance(d, ast.Name):
        return d.id, None
    return None, None


def decorated_functions(model):
    """[(qualname, decorator name, kind, detail, lineno)] for every decorator in the package; kind is 'plain' (property,
    setter, staticmethod ...: the interpreter models them), 'memo-pure' / 'memo-impure' (a memoising decorator on a function
    whose result does / does not depend on anything but its arguments) or 'unknown'.  The abstract interpreter evaluates
    function bodies and ignores decorators, which is only right for the plain kind and for pure memoised functions."""
    out = []
    for cname, fn, mod in functions(model):
        q = '%s.%s' % (cname, fn.name) if cname else fn.name
        for d in fn.decorator_list:
            name, base = _decorator_name(d)
            if name in PLAIN_DECORATORS or name in ('setter', 'getter', 'deleter'):
                out.append((q, name, 'plain', '', d.lineno))
                continue
            if name in MEMO_DECORATORS:
                params = set(a.arg for a in fn.args.args)
                first = fn.args.args[0].arg if fn.args.args else None
                reads = set()
                for n in ast.walk(fn):
                    if isinstance(n, ast.Attribute) and isinstance(n.value, ast.Name) and n.value.id == first and cname:
                        reads.add('%s.%s' % (first, n.attr))
                    if isinstance(n, ast.Name) and isinstance(n.ctx, ast.Load) and (mod, n.id) in model.consts \
                            and _is_mutable_display(model.consts[(mod, n.id)]):
                        reads.add(n.id)
                kind = 'memo-impure' if reads else 'memo-pure'
                detail = ', '.join(sorted(reads)[:6])
                if reads:
                    # accepted when every writer of the state it reads also clears the cache (x.<fn>.cache_clear())
                    stale = []
                    for r in sorted(reads):
                        attr = r.split('.')[-1]
                        writers = set(w[0] for w in attr_stores(model, attr)) | \
                            set(w[0] for w in method_calls_on_attr(model, attr, WRITE_METHODS))
                        for w in sorted(writers):
                            if w.endswith('.__init__'):
                                continue
                            wc, _, wn = w.rpartition('.')
                            wfn = model.lookup(wc, wn)[1] if wc else model.functions.get((mod, wn))
                            clears = wfn is not None and any(
                                isinstance(n, ast.Call) and isinstance(n.func, ast.Attribute) and n.func.attr == 'cache_clear'
                                and isinstance(n.func.value, ast.Attribute) and n.func.value.attr == fn.name
                                for n in ast.walk(wfn))
                            if not clears:
                                stale.append('%s (written by %s)' % (r, w))
                    if stale:
                        detail = '; '.join(stale[:4])
                    else:
                        kind = 'memo-guarded'
                out.append((q, name, kind, detail, d.lineno))
                continue
            out.append((q, name or ast.dump(d)[:40], 'unknown', '', d.lineno))
    return out


# ---- class-level containers --------------------------------------------------------------------------------------------
_MUTABLE_CTORS = frozenset(['dict', 'list', 'set', 'bytearray', 'OrderedDict', 'defaultdict', 'deque', 'Counter'])
_MUTATORS = frozenset(['append', 'extend', 'insert', 'remove', 'pop', 'popitem', 'clear', 'update', 'setdefault', 'add',
                       'discard', 'sort', 'reverse', 'move_to_end', 'appendleft', 'popleft', '__setitem__', '__delitem__'])


def _is_mutable_value(node):
    if _is_mutable_display(node):
        return True
    if isinstance(node, ast.Call):
        f = node.func
        name = f.id if isinstance(f, ast.Name) else (f.attr if isinstance(f, ast.Attribute) else None)
        return name in _MUTABLE_CTORS
    return False


def _always_assigns(model, cname, meth, attr, seen):
    """does `self.<attr> = ...` sit on the straight-line top level of the method (or of a method it calls there)?"""
    if (cname, meth) in seen:
        return False
    seen.add((cname, meth))
    c, fn = model.lookup(cname, meth)
    if fn is None:
        return False
    for s in fn.body:
        if isinstance(s, ast.Return):
            return False
        targets = s.targets if isinstance(s, ast.Assign) else ([s.target] if isinstance(s, ast.AnnAssign) and s.value is not None else [])
        for t in targets:
            if isinstance(t, ast.Attribute) and t.attr == attr and isinstance(t.value, ast.Name) and t.value.id == 'self':
                return True
        if isinstance(s, ast.Expr) and isinstance(s.value, ast.Call) and isinstance(s.value.func, ast.Attribute) \
                and isinstance(s.value.func.value, ast.Name) and s.value.func.value.id == 'self':
            if _always_assigns(model, cname, s.value.func.attr, attr, seen):
                return True
    return False


def class_level_mutables(model):
    """[(class, attr, lineno, owned, (qualname, lineno, what) | None)] for containers created in a class body: `owned` says
    that every instance gets its own object in __init__ (straight-line assignment, possibly in a method called from
    there); the last item is an in-place mutation through `<expr>.attr` somewhere in the package, if there is one.  A
    container that is mutated in place and not owned is one object shared by every instance - copies included."""
    out = []
    for cname, ci in sorted(model.classes.items()):
        for s in ci.node.body:
            if isinstance(s, ast.Assign) and len(s.targets) == 1 and isinstance(s.targets[0], ast.Name):
                name, value = s.targets[0].id, s.value
            elif isinstance(s, ast.AnnAssign) and isinstance(s.target, ast.Name) and s.value is not None:
                name, value = s.target.id, s.value
            else:
                continue
            if not _is_mutable_value(value):
                continue
            mutation = None
            for c2, fn, mod in functions(model):
                q = '%s.%s' % (c2, fn.name) if c2 else fn.name
                for n in ast.walk(fn):
                    hit = None
                    if isinstance(n, ast.Call) and isinstance(n.func, ast.Attribute) and n.func.attr in _MUTATORS \
                            and isinstance(n.func.value, ast.Attribute) and n.func.value.attr == name:
                        hit = '.%s()' % n.func.attr
                    elif isinstance(n, ast.Subscript) and isinstance(n.ctx, (ast.Store, ast.Del)) \
                            and isinstance(n.value, ast.Attribute) and n.value.attr == name:
                        hit = 'item assignment / deletion'
                    elif isinstance(n, ast.AugAssign) and isinstance(n.target, ast.Attribute) and n.target.attr == name:
                        hit = 'augmented assignment'
                    if hit and mutation is None:
                        mutation = (q, n.lineno, hit)
            owned = _always_assigns(model, cname, '__init__', name, set())
            out.append((cname, name, s.lineno, owned, mutation))
    return out
