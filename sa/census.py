"""Syntactic writer census over the package (component B, receiver-insensitive and therefore conservative)."""
import ast


def functions(model):
    """yield (class name | None, FunctionDef, module)"""
    for cname, ci in sorted(model.classes.items()):
        for group in (ci.methods, ci.props, ci.setters):
            for fn in group.values():
                yield cname, fn, ci.module
    for (mod, name), fn in sorted(model.functions.items()):
        yield None, fn, mod


def attr_stores(model, attr, only_foreign=None):
    """[(qualname, value node, lineno, module)] for every assignment `<expr>.attr = value` / augmented"""
    out = []
    for cname, fn, mod in functions(model):
        q = '%s.%s' % (cname, fn.name) if cname else fn.name
        for n in ast.walk(fn):
            targets = []
            if isinstance(n, ast.Assign):
                targets = [(t, n.value) for t in n.targets]
            elif isinstance(n, ast.AugAssign):
                targets = [(n.target, n.value)]
            elif isinstance(n, ast.Delete):
                targets = [(t, None) for t in n.targets]
            for t, val in targets:
                for tt in ([t] if not isinstance(t, (ast.Tuple, ast.List)) else t.elts):
                    if isinstance(tt, ast.Attribute) and tt.attr == attr:
                        if only_foreign and isinstance(tt.value, ast.Name) and tt.value.id == 'self' and cname not in only_foreign:
                            continue        # the class's own field of the same name
                        out.append((q, val, n.lineno, mod, isinstance(n, ast.AugAssign)))
    return out


def method_calls_on_attr(model, attr, methods):
    """[(qualname, method, lineno)] for calls `<expr>.attr.<method>(...)`, `del <expr>.attr[...]`, `<expr>.attr[...] = `"""
    out = []
    for cname, fn, mod in functions(model):
        q = '%s.%s' % (cname, fn.name) if cname else fn.name
        for n in ast.walk(fn):
            if isinstance(n, ast.Call) and isinstance(n.func, ast.Attribute) and n.func.attr in methods:
                recv = n.func.value
                if isinstance(recv, ast.Attribute) and recv.attr == attr:
                    out.append((q, n.func.attr, n.lineno))
            if isinstance(n, (ast.Assign, ast.Delete, ast.AugAssign)):
                tgts = n.targets if not isinstance(n, ast.AugAssign) else [n.target]
                for t in tgts:
                    if isinstance(t, ast.Subscript) and isinstance(t.value, ast.Attribute) and t.value.attr == attr:
                        out.append((q, 'del[]' if isinstance(n, ast.Delete) else '[]=', n.lineno))
    return out


def call_graph(model):
    """name-based call graph: {callee simple name: set of caller qualnames}; receiver-insensitive (conservative)"""
    cached = getattr(model, '_callers', None)
    if cached is not None:
        return cached
    callers = {}
    quals = {}
    for cname, fn, mod in functions(model):
        q = '%s.%s' % (cname, fn.name) if cname else fn.name
        quals.setdefault(fn.name, set()).add(q)
        for n in ast.walk(fn):
            name = None
            if isinstance(n, ast.Call):
                if isinstance(n.func, ast.Attribute):
                    name = n.func.attr
                elif isinstance(n.func, ast.Name):
                    name = n.func.id
            elif isinstance(n, ast.Attribute) and isinstance(n.ctx, ast.Load):
                name = n.attr          # properties and bound-method references
            if name:
                callers.setdefault(name, set()).add(q)
    model._callers = (callers, quals)
    return model._callers


def only_reached_through(model, qual, allowed):
    """True when `qual` is in `allowed`, or it is a helper: it has callers and every chain of callers reaches an allowed
    function before reaching a function without callers (an entry point).  Lets a write move into an extracted helper."""
    callers, quals = call_graph(model)
    allowed = set(allowed)
    seen = set()
    work = [qual]
    while work:
        q = work.pop()
        if q in allowed or q in seen:
            continue
        seen.add(q)
        simple = q.split('.')[-1]
        cs = set(c for c in callers.get(simple, ()) if c != q)
        if not cs:
            return False
        work.extend(cs)
    return True
