"""C20 - offline stream filtering equals live filtering and is isolated."""
import ast
import re

from .entries import make_interp, prematerialise, Path
from .pathfacts import Facts, live_alts, classify
from .state import State
from .values import NONE, Num, Str, SStr, Cat, Obj, TupleV, Opaque, Star, Choice, vkey
from .absint import Raised, Frame, BOOL
from .model import AnalysisError
from . import census

PROP = 'C20'


def declare(c):
    c.rule('C20.R1', 'the stream processor works on a deep copy of the live state and keeps no reference to a live object', floor=1)
    c.rule('C20.R2', 'untouched lines are returned as the very text that was passed in (never a re-parsed or rebuilt string)', floor=4)
    c.rule('C20.R3', 'result mapping: None -> the line, IGNORE -> dropped, list -> every command followed by the file EOL', floor=4)
    c.rule('C20.R4', 'the command handed to the handlers carries no leading whitespace, line number, comment or EOL '
                     '(as the live hook receives it and as the script splitter produces it)', floor=2)
    c.rule('C20.R6', 'dispatch completeness: every line with a G/M/T code goes through handleGcode and every @-line through '
                     'handleAtCommand, whatever the filter state (the live hooks are called for all of them)', floor=4)
    c.rule('C20.R5', 'the handlers receive the parsed code and sub-code of the same line', floor=2)


def sp_state(I):
    st = State()
    st.cls['SP'] = 'StreamProcessor'
    st.cls['H'] = 'GcodeHandlers'
    st.cls['H.state'] = 'ExcludeRegionState'
    st.heap[('SP', 'gcodeHandlers')] = Obj('H')
    st.heap[('H', 'state')] = Obj('H.state')
    prematerialise(I, st, Obj('SP'))
    return st


def at_handler_parses(model):
    """does the real handleAtCommand (or anything it reaches) use the handlers' own parser?  The stream processor reads the
    parsed line again after that call, which is only right while the answer is no."""
    from .entries import new_handlers_state
    I0 = make_interp(model, unroll=1)
    st, H, S = new_handlers_state(I0)
    res = I0.run_method(st, 'GcodeHandlers', 'handleAtCommand', H, [Opaque('comm'), SStr('ATCMD', nonempty=True), SStr('PARAMS')])
    for (s, v) in res:
        for e in s.trace:
            if e[0] in ('parse', 'buildCommand') and str(e[1]) == 'H.gcodeParser':
                return True
    return False


def install_handler_summaries(I):
    """handleGcode / handleAtCommand replaced by their result shapes (decided by C09.R1 / C14); both keep the
    essential side effect for this property: the handlers re-parse the command with their (shared) parser"""
    at_parses = at_handler_parses(I.m)
    def handleGcode(I, st, recv, args, kw, frame, node):
        cmd, gcode = args[0], args[1]
        sub = args[2] if len(args) > 2 else kw.get('subcode', NONE)
        st.ev('handle', cmd, gcode, sub)
        parser = st.heap.get((recv.oid, 'gcodeParser'))
        out = []
        shapes = ['none', 'ignore', 'one', 'two']
        for i, sh in enumerate(shapes):
            s2 = st if i == len(shapes) - 1 else st.clone()
            s2.restrict(('handler-result',), frozenset([sh]))
            if isinstance(parser, Obj):
                for (s3, _r) in I.summaries[('GcodeParser', 'parse')](I, s2, parser, [cmd], {}, frame, node):
                    s2 = s3
            if sh == 'none':
                out.append((s2, NONE))
            elif sh == 'ignore':
                out.append((s2, TupleV([NONE])))
            else:
                oid = s2.new_oid('list', 'handlerResult')
                elems = [SStr('GEN1', nonempty=True)] + ([SStr('GEN2', nonempty=True)] if sh == 'two' else [])
                s2.seqs[oid] = tuple(elems)
                out.append((s2, Obj(oid)))
        return out
    I.summaries[('GcodeHandlers', 'handleGcode')] = handleGcode

    def handleAtCommand(I, st, recv, args, kw, frame, node):
        comm = args[0]
        st.ev('handle-at', args[1], args[2], comm)
        if at_parses:
            parser = st.heap.get((recv.oid, 'gcodeParser'))
            if isinstance(parser, Obj):
                for (s3, _r) in I.summaries[('GcodeParser', 'parse')](I, st, parser, [args[2]], {}, frame, node):
                    st = s3
        out = []
        cases = [('unhandled', 0), ('handled', 0), ('handled', 1), ('handled', 2)]
        for i, (h, n) in enumerate(cases):
            s2 = st if i == len(cases) - 1 else st.clone()
            s2.restrict(('at-result',), frozenset(['%s%d' % (h, n)]))
            cur = [s2]
            for j in range(n):
                nxt = []
                for s3 in cur:
                    for (s4, _r) in I.run_method(s3, 'StreamProcessorComm', 'sendCommand', comm, [SStr('SENT%d' % (j + 1), nonempty=True)]):
                        nxt.append(s4)
                cur = nxt
            for s3 in cur:
                out.append((s3, h == 'handled'))
        return out
    I.summaries[('GcodeHandlers', 'handleAtCommand')] = handleAtCommand


def isolation_rule(ctx, I):
    st = State()
    st.cls['LIVE'] = 'GcodeHandlers'
    st.cls['LIVE.state'] = 'ExcludeRegionState'
    st.heap[('LIVE', 'state')] = Obj('LIVE.state')
    prematerialise(I, st, Obj('LIVE'))
    from .calls import construct
    fr = Frame(None, 'StreamProcessor', ast.parse('def f(): pass').body[0], 0)
    res = construct(I, st, 'StreamProcessor', [Opaque('stream'), Obj('LIVE')], {}, fr, ast.parse('f()').body[0].value)
    for (s, v) in res:
        ctx.instance('C20.R1', repr(v))
        where = 'StreamProcessor.__init__'
        if isinstance(v, Raised):
            ctx.report('C20.R1', where, 'raises', repr(v))
            continue
        # reachability from the new processor
        seen = set()
        work = [v.oid]
        live_hit = None
        while work:
            oid = work.pop()
            if oid in seen:
                continue
            seen.add(oid)
            if oid.startswith('LIVE'):
                live_hit = oid
            vals = [val for (o, a), val in s.heap.items() if o == oid]
            vals += list(s.seqs.get(oid, ()))
            for it in s.maps.get(oid, ()):
                if it[0] == 'kv':
                    vals.append(it[2])
            for val in vals:
                for x in (live_alts(s, val) if isinstance(val, Choice) else [val]):
                    if isinstance(x, Obj):
                        work.append(x.oid)
        if live_hit:
            ctx.report('C20.R1', where, 'live object %s reachable from the processor' % live_hit,
                       'the stream processor shares %s with the live plugin (shallow copy or stored reference): '
                       'filtering a file would modify the live state' % live_hit)
        copies = [e for e in s.trace if e[0] == 'copy']
        custom = any(e[0] == 'custom-copy' and e[1] == '__deepcopy__' and e[2] == 'LIVE.state' for e in s.trace)
        if not custom and not any(e[1] == 'deep' and e[2] == 'LIVE.state' for e in copies):
            ctx.report('C20.R1', where, 'state not deep-copied', 'copy events: %s' % [(e[1], e[2]) for e in copies])
        for e in s.trace:
            if e[0] == 'write' and str(e[4]).startswith('LIVE'):
                ctx.report('C20.R1', where, 'writes live object %s.%s' % (e[4], e[2]), 'construction modifies the live plugin')
        # the private copy starts out equal to the live state: creating the processor (and its handlers) changes nothing in it
        ctx.instance('C20.R8', repr(v))
        for e in s.trace:
            if (e[0] == 'write' and str(e[4]).startswith('deepcopy(LIVE')) or \
                    ((e[0].startswith('seq-') or e[0].startswith('map-')) and str(e[1]).startswith('deepcopy(LIVE')):
                what = '%s.%s' % (e[4], e[2]) if e[0] == 'write' else '%s (%s)' % (e[1], e[0])
                ctx.report('C20.R8', e[5] if e[0] == 'write' and isinstance(e[5], str) else where,
                           'construction writes the copied state: %s' % re.sub(r'#\d+', '', what.replace('deepcopy(LIVE.state)', 'copy')),
                           'the offline filter must continue from the live state it was created from (position, modes, units, '
                           'open episode, owed recovery); something on the construction path re-initialises the copy, so the '
                           'file is filtered from a different state than the live hooks would use')
                break
        # a class that customises the copy protocol: the copy the processor works on must still carry every attribute of the
        # live state (a deep copy of it, or the same immutable / external value)
        for e in s.trace:
            if e[0] != 'custom-copy':
                continue
            ctx.instance('C20.R9', (e[1], e[2]))
            src = e[2]
            hobj = s.heap.get((v.oid, 'gcodeHandlers'))
            clone = s.heap.get((hobj.oid, 'state')) if isinstance(hobj, Obj) else None
            if src != 'LIVE.state' or not isinstance(clone, Obj):
                continue
            names = sorted(set(a for (c, a) in I.fieldspec if c == 'ExcludeRegionState') |
                           set(a for (o2, a) in s.heap if o2 == src))
            for a in names:
                if str(a).startswith('@') or a == '_logger':
                    continue
                sv = s.heap.get((src, a))
                if sv is None:
                    sv = I.materialise(s, Obj(src), 'ExcludeRegionState', a)
                    s.heap[(src, a)] = sv
                cv = s.heap.get((clone.oid, a))
                def same(cx, sx):
                    return vkey(cx) == vkey(sx) or (isinstance(sx, Obj) and isinstance(cx, Obj) and ('(%s)' % sx.oid) in cx.oid)
                ok = cv is not None and all(any(same(cx, sx) for sx in live_alts(s, sv)) for cx in live_alts(s, cv)) \
                    and len(live_alts(s, cv)) == len(live_alts(s, sv))
                if not ok:
                    ctx.report('C20.R9', 'ExcludeRegionState.%s' % e[1], 'attribute %s is not carried over by %s' % (a, e[1]),
                               'the custom copy leaves %s = %r in the clone where the live state has %r: the offline filter '
                               'starts from a different state than the live hooks would use' % (a, cv, sv))
        h = s.heap.get((v.oid, 'gcodeHandlers'))
        if not (isinstance(h, Obj) and ('fresh', h.oid) in s.flags):
            ctx.report('C20.R1', where, 'handlers not private', 'the processor does not create its own GcodeHandlers')


def line_rules(ctx, I):
    st = sp_state(I)
    LINE = SStr('LINE')
    res = I.run_method(st, 'StreamProcessor', 'process_line', Obj('SP'), [LINE])
    parser_oid = 'H.gcodeParser'
    nlist = 0
    for (s, v) in res:
        typed = None
        for k2, d2 in s.dom.items():
            if k2[0] == 'null' and isinstance(k2[1], str) and k2[1].startswith('type(LINE'):
                typed = (d2 == frozenset([False]))
        handled = any(e[0] == 'handle' for e in s.trace)
        at = None
        for k2, d2 in s.dom.items():
            if k2[0] == 'startswith' and 'text(LINE' in repr(k2):
                at = (d2 == frozenset([True]))
        at_handled = any(e[0] == 'handle-at' for e in s.trace)
        ctx.instance('C20.R6', (typed, handled, at, at_handled))
        if typed is True and not handled and not isinstance(v, Raised):
            ctx.report('C20.R6', 'StreamProcessor.process_line', 'a line with a G/M/T code bypasses the handlers',
                       'on some path a command line is passed through without calling handleGcode: codes that only update the '
                       'tracked state (M206, G92, G90 ...) are missed offline although the live hook sees them',
                       detail={'decisions': [repr(x)[:100] for x in s.declog][-8:]})
        if typed is False and at is True and not at_handled and not isinstance(v, Raised):
            ctx.report('C20.R6', 'StreamProcessor.process_line', 'an @-command line bypasses handleAtCommand', '')
    for (s, v) in res:
        p = Path('process_line', s, v, {})
        hres = p.dec(('handler-result',))
        ares = p.dec(('at-result',))
        tag = 'handler=%s at=%s' % (hres, ares)
        where = 'StreamProcessor.process_line'
        if isinstance(v, Raised):
            ctx.instance('C20.R3', tag)
            ctx.report('C20.R3', (v.where or (where, 0))[0], 'raises %s: %s' % (v.exc, v.info), 'line processing can raise')
            continue
        untouched = (hres == 'none') or (ares == 'unhandled0') or (hres is None and ares is None)
        if untouched:
            ctx.instance('C20.R2', tag)
            vals = live_alts(s, v)
            for x in vals:
                if not (isinstance(x, SStr) and x.tag == 'LINE'):
                    ctx.report('C20.R2', 'StreamProcessor._handleGcode' if hres else where,
                               'untouched line returned as %s' % classify(x),
                               'a line the filter does not change is not returned byte for byte: the value is read back '
                               'from the parser after the handlers re-parsed with the same instance, or rebuilt')
            continue
        ctx.instance('C20.R3', tag)
        if hres == 'ignore' or ares == 'handled0':
            if v is not NONE:
                ctx.report('C20.R3', where, '%s -> %r' % (tag, v), 'a suppressed line must be omitted (None)')
            continue
        # list result: join with eol + trailing eol
        nlist += 1
        want = ['GEN1', 'GEN2'][:1 if hres == 'one' else 2] if hres else ['SENT1', 'SENT2'][:int(ares[-1])]
        # flatten the result into tokens: item, separator, item, separator ...
        toks = []
        ok = isinstance(v, Cat)
        if ok:
            for part in v.parts:
                if isinstance(part, str):
                    toks.append(('lit', part))
                elif part[3] == 'join' and isinstance(part[1], TupleV):
                    sep = part[1].elems[0]
                    for i, it in enumerate(part[1].elems[1:]):
                        if i:
                            toks.append(('val', vkey(sep)))
                        toks.append(('val', vkey(it)))
                else:
                    toks.append(('val', vkey(part[1])))
            items = toks[0::2]
            seps = toks[1::2]
            got_items = [t[1][1] if t[0] == 'val' and isinstance(t[1], tuple) and t[1][0] == 'sstr' else t for t in items]
            ok = got_items == want and len(seps) == len(items) and len(set(seps)) == 1
            if ok:
                sp = seps[0]
                # which line ending is the file's: this line's own, else the one remembered from earlier lines, else LF
                own = None
                for k2, d2 in s.dom.items():
                    if k2[0] == 'truthy' and isinstance(k2[1], tuple) and k2[1] == ('sstr', 'eol(LINE)'):
                        own = (d2 == frozenset([True]))
                remembered = p.dec(('null', 'SP', '_eol')) is False
                if own:
                    expect = ('val', ('sstr', 'eol(LINE)'))
                elif remembered:
                    expect = ('val', ('sstr', 'SP._eol'))
                else:
                    expect = ('lit', '\n')
                if not own and p.dec(('null', 'SP', '_eol')) is None:
                    # the line ending remembered from earlier lines was not even consulted
                    expect = ('val', ('sstr', 'SP._eol'))
                ok = (sp == expect)
                if not ok:
                    want = want + ['<each followed by %r, got %r>' % (expect, sp)]
        if not ok:
            ctx.report('C20.R3', where, '%s -> %s' % (tag, classify(v) if not isinstance(v, Cat) else v.parts),
                       'generated commands must each be emitted once, in order, every one followed by the file line ending')
        ctx.sample({'rule': 'C20.R3', 'case': tag, 'value': repr(v)[:120]})
    if nlist == 0:
        raise AnalysisError('no list-valued path through process_line')
    # R4 / R5: what the handlers are given
    FLAGS = ('includeLeadingWhitespace', 'includeLineNumber', 'includeComment', 'includeEol')
    seen = 0
    for (s, v) in res:
        for e in s.trace:
            if e[0] != 'handle':
                continue
            seen += 1
            cmd, gcode, sub = e[1], e[2], e[3]
            ctx.instance('C20.R5', (repr(cmd)[:80], repr(gcode)[:40]))
            calls = [x for x in s.trace if x[0] == 'stringify' and x[1] == parser_oid]
            src_ok = isinstance(cmd, SStr) and cmd.tag.startswith('stringify(LINE;')
            if not src_ok:
                ctx.report('C20.R5', 'StreamProcessor._handleGcode', 'cmd %r' % (cmd,), 'the handlers are not given the normalised text of this line')
            for gv, name in ((gcode, 'gcode'), (sub, 'subCode')):
                xs = live_alts(s, gv)
                if not all((isinstance(x, (SStr, Opaque)) and x.tag == '%s(LINE)' % name) or x is NONE for x in xs):
                    ctx.report('C20.R5', 'StreamProcessor._handleGcode', '%s argument %r' % (name, gv),
                               'the handlers are not given the parsed %s of this line' % name)
            if calls:
                flags = dict(calls[-1][3])
                ctx.instance('C20.R4', tuple(sorted(flags.items())))
                missing = [f for f in FLAGS if flags.get(f) is not False]
                if missing:
                    ctx.report('C20.R4', 'StreamProcessor._handleGcode', 'stringify keeps %s' % ','.join(missing),
                               'the command handed to the handlers still contains %s; the live hook receives the bare '
                               'command, and RetractionState re-uses the text after the code' % ', '.join(missing))
    if seen == 0:
        raise AnalysisError('handlers never invoked from process_line')
    # sibling: the script splitter
    fn = ctx.model.method('ExcludeRegionPlugin', '_splitGcodeScript')
    for n in ast.walk(fn):
        if isinstance(n, ast.Call) and isinstance(n.func, ast.Attribute) and n.func.attr == 'stringify':
            flags = {k.arg: (k.value.value if isinstance(k.value, ast.Constant) else '?') for k in n.keywords}
            ctx.instance('C20.R4', ('splitter', tuple(sorted(flags.items()))))
            missing = [f for f in FLAGS if flags.get(f) is not False]
            if missing:
                ctx.report('C20.R4', 'ExcludeRegionPlugin._splitGcodeScript', 'stringify keeps %s' % ','.join(missing),
                           'script lines are not reduced to bare commands')


def shared_class_containers(ctx):
    """a deep copy duplicates what hangs off the instance; a container created in the class body and only ever changed in
    place is one object for the live state and for every copy of it"""
    ctx.rule('C20.R10', 'no container created in a class body is changed in place unless every instance gets its own in __init__: '
                        'class-level objects are not duplicated by copy.deepcopy, so the processor and the live plugin would '
                        'write into the same one', floor=0)
    for (cname, attr, lineno, owned, mutation) in census.class_level_mutables(ctx.model):
        ctx.instance('C20.R10', (cname, attr))
        if mutation is not None and not owned:
            ctx.report('C20.R10', '%s.%s' % (cname, attr), 'class-level %s changed in place by %s (%s)' % (attr, mutation[0], mutation[2]),
                       'the container is created once in the class body, %s.__init__ does not give each instance its own, and %s '
                       'changes it in place: the processor\'s deep copy of the state shares it with the live state'
                       % (cname, mutation[0]), line=lineno)


def line_premise(ctx):
    """the processor's line handling as a premise of another property (C14: a disable @-command met in a file being
    pre-processed must put the exit sequence into the output, exactly as the live path sends it)"""
    ctx.rule('C20.R2', 'C20: untouched lines are returned as the very text that was passed in', floor=4)
    ctx.rule('C20.R3', 'C20: result mapping - None -> the line, IGNORE / handled without output -> dropped, generated commands -> '
                       'each one once, in order, followed by the file EOL (for G-code lines and @-command lines alike)', floor=4)
    ctx.rule('C20.R4', 'C20: the command handed to the handlers carries no leading whitespace, line number, comment or EOL', floor=2)
    ctx.rule('C20.R5', 'C20: the handlers receive the parsed code and sub-code of the same line', floor=2)
    ctx.rule('C20.R6', 'C20: every line with a G/M/T code goes through handleGcode and every @-line through handleAtCommand', floor=4)
    I = make_interp(ctx.model)
    install_handler_summaries(I)
    line_rules(ctx, I)


def handlers_configuration_rule(ctx):
    """the processor builds handlers of its own around the copied state; they behave like the live ones only if a
    GcodeHandlers carries no configuration besides that state: nobody sets an attribute of a handlers object from
    outside the class, and every construction site passes the same kind of arguments"""
    m = ctx.model
    ci = m.classes.get('GcodeHandlers')
    if ci is None:
        raise AnalysisError('anchor vanished: class GcodeHandlers')
    attrs = set()
    for fn in list(ci.methods.values()) + list(ci.setters.values()):
        for n in ast.walk(fn):
            if isinstance(n, ast.Attribute) and isinstance(n.ctx, ast.Store) and isinstance(n.value, ast.Name) and n.value.id == 'self':
                attrs.add(n.attr)
    for attr in sorted(attrs):
        ctx.instance('C20.R11', ('attr', attr))
        for cname, fn, mod in census.functions(m):
            if cname == 'GcodeHandlers':
                continue
            q = '%s.%s' % (cname, fn.name) if cname else fn.name
            for n in ast.walk(fn):
                if isinstance(n, ast.Attribute) and n.attr == attr and isinstance(n.ctx, (ast.Store, ast.Del)):
                    recv = ast.unparse(n.value)
                    if 'andlers' not in recv:
                        continue            # an attribute of the same name on another kind of object
                    ctx.report('C20.R11', q, '%s.%s assigned outside GcodeHandlers' % (recv, attr),
                               'the live handlers object is configured from outside (%s.%s = ...); the handlers the stream '
                               'processor builds around its copy of the state never receive that value, so the offline filter '
                               'can decide differently from the live one' % (recv, attr), line=n.lineno)
    shapes = {}
    for cname, fn, mod in census.functions(m):
        q = '%s.%s' % (cname, fn.name) if cname else fn.name
        for n in ast.walk(fn):
            if isinstance(n, ast.Call) and isinstance(n.func, ast.Name) and n.func.id == 'GcodeHandlers':
                # the parameters the call binds, whether positionally or by keyword
                c0, init = m.lookup('GcodeHandlers', '__init__')
                params = [a.arg for a in init.args.args[1:]] if init is not None else []
                bound = set(params[:len(n.args)]) | set(k.arg or '**' for k in n.keywords)
                if len(n.args) > len(params) or any(isinstance(a, ast.Starred) for a in n.args):
                    bound.add('*')
                shapes[q, n.lineno] = tuple(sorted(bound))
                ctx.instance('C20.R11', ('construction', q))
    if len(set(shapes.values())) > 1:
        (q, line) = sorted(shapes)[0]
        ctx.report('C20.R11', q, 'GcodeHandlers constructed with different argument shapes: %r' % (sorted(set(shapes.values())),),
                   'the live handlers and the stream processor\'s handlers are built with different arguments', line=line)
    if not any(q.startswith('StreamProcessor.') for (q, _l) in shapes):
        # not a verdict by itself (the isolation rule C20.R1 decides whether live objects are shared): fail the run only if
        # nothing else is found
        ctx.deferred_errors.append('anchor vanished: StreamProcessor no longer constructs its own GcodeHandlers')


def handler_shape_paths(col, gcode, paths, I):
    """C09 as a premise: the mapping of handler results to output lines (C20.R3) is only right for the shapes C09.R1 allows"""
    col.rule('C09.R1', 'C09: the result of handleGcode on every abstract path is None, IGNORE or a non-empty list of non-empty '
                       'commands (the shapes the processor maps to output lines)', floor=100)
    col.rule('C09.R3', 'C09: no abstract path of a hook entry point ends in an exception (one would abort the filtering of the file)', floor=40)
    col.rule('C09.R4', 'C09: the retraction record keeps its representation invariant on every path', floor=4)
    from . import rules_c09
    rules_c09.path_rules(col, gcode, paths, I, own=False)


def run(ctx, tier):
    declare(ctx)
    ctx.rule('C20.R8', 'the processor\'s private copy starts out equal to the live state: nothing on the construction path (the '
                       'processor, its own GcodeHandlers, its comm stub) writes into the copied state', floor=1)
    ctx.rule('C20.R9', 'if a class customises the copy protocol (__deepcopy__ / __copy__), the copy of the live state still '
                       'carries every attribute of it (standard deep copies do by construction)', floor=0)
    ctx.rule('C20.R7', 'the one parser instance the processor (and the handlers) share carries nothing from line to line: '
                       'parse() re-assigns every attribute a reader uses, on every path', floor=10)
    from . import rules_c18
    rules_c18.parse_rules(ctx, rules_c18.parser_interp(ctx.model, unroll=2), r5='C20.R7', freshness_only=True)
    shared_class_containers(ctx)
    ctx.rule('C20.R11', 'a GcodeHandlers object carries no configuration besides its state: no attribute of it is assigned from '
                        'outside the class and every construction site passes the same kind of arguments (the processor\'s own '
                        'handlers are then equivalent to the live ones)', floor=4)
    handlers_configuration_rule(ctx)
    I = make_interp(ctx.model, unroll=2 if tier == 'thorough' else 1)
    isolation_rule(ctx, I)
    install_handler_summaries(I)
    line_rules(ctx, I)
    from .handlers import run_path_rules
    from .entries import gcodes_to_analyse
    run_path_rules(ctx, __name__, 'handler_shape_paths', gcodes_to_analyse(ctx.model), unroll=1)
    ctx.assume('handleAtCommand returns a boolean and sends through the comm object (C14)')
    ctx.assume('OctoPrint passes the live hook the stripped command text (its comm layer strips comments and line numbers)')
