"""Helpers for rules over the plugin-level entry points (hooks, events, API)."""
from .values import NONE, Num, Str, SStr, Cat, Obj, TupleV, Star, Choice, Opaque
from .pathfacts import live_alts

REGIONS = 'H.state.excludedRegions'
IGNORED_WRITES = set()


def effects(p, ignore_ext=('flask_login.current_user.is_anonymous',)):
    """significant events of a path: field writes, container mutations, external calls (logger excluded)"""
    out = []
    for e in p.st.trace:
        k = e[0]
        if k == 'write':
            if ('fresh', e[4]) in p.st.flags:
                continue        # initialisation of an object created on this path
            out.append(('write', e[1], e[2]))
        elif k.startswith('seq-') or k.startswith('map-'):
            out.append((k, e[1]))
        elif k == 'ext':
            if e[1] in ignore_ext or e[1].startswith('data.get') or e[1].startswith('super.') or \
                    e[1].endswith('.containsRegion') or e[1].endswith('.containsPoint'):
                continue
            out.append(('ext', e[1]))
        elif k in ('classattr-write', 'extwrite', 'ext-setitem', 'ext-delitem'):
            out.append((k, e[1]))
    return out


def region_mutations(p):
    """indices (in the trace) of events that change the region list"""
    out = []
    for i, e in enumerate(p.st.trace):
        if e[0] in ('seq-append', 'seq-del', 'seq-set', 'seq-extend', 'seq-insert', 'seq-clear', 'seq-pop',
                    'seq-remove', 'seq-sort', 'seq-reverse') and e[1] == REGIONS:
            out.append((i, e[0]))
        if e[0] == 'write' and e[1] == 'ExcludeRegionState' and e[2] == 'excludedRegions':
            out.append((i, 'replace'))
    return out


def notifications(p):
    return [i for i, e in enumerate(p.st.trace) if e[0] == 'ext' and e[1].endswith('send_plugin_message')]


def is_error_tuple(v):
    return isinstance(v, TupleV) and len(v.elems) == 2 and isinstance(v.elems[1], Num) and v.elems[1].is_const() \
        and v.elems[1].p.const_value() >= 400


def install_region_summaries(I):
    """containsRegion / containsPoint of the region classes as opaque predicates (their geometry is C17's subject);
    every evaluation is recorded as ('regiontest', method, receiver, argument...)"""
    from .absint import BOOL
    from .values import vkey

    def mk(meth):
        def summ(I, st, recv, args, kw, frame, node):
            st.ev('regiontest', meth, recv, tuple(args), frame.qual())
            key = ('regiontest', meth, vkey(recv), tuple(vkey(a) for a in args))
            return I.decide(st, key, BOOL, frozenset([True]))
        return summ
    for cls in ('RectangularRegion', 'CircularRegion'):
        for meth in ('containsRegion', 'containsPoint'):
            if I.m.lookup(cls, meth)[1] is not None:
                I.summaries[(cls, meth)] = mk(meth)


def api_data(st, rtype, with_id=True):
    """request payload of add/update: a dict with the type, an id and symbolic geometry"""
    st.cls['DATA'] = 'dict'
    items = [('kv', Str('type'), Str(rtype))]
    if with_id:
        items.append(('kv', Str('id'), Opaque('REQ_ID')))
    names = ('x1', 'y1', 'x2', 'y2') if rtype == 'RectangularRegion' else ('cx', 'cy', 'r')
    for n in names:
        items.append(('kv', Str(n), Opaque('req.' + n)))
    st.maps['DATA'] = tuple(items)
    return Obj('DATA')


def new_region(st, cls='RectangularRegion', oid='NEWREGION'):
    st.cls[oid] = cls
    return Obj(oid)


def id_comparisons(p):
    """[(key, decided values, raw, slot oid | None)] for every comparison on this path that involves the id of a stored
    region.  `raw` means: the stored region's id attribute itself compared with == against an unprocessed value (no
    str()/lower()/int() wrapping on either side) - the one relation all registry functions must share, or else "unique
    under the guard's relation" and "selected by the replace/delete relation" drift apart."""
    out = []
    for k, v in p.st.dom.items():
        if not (isinstance(k, tuple) and len(k) == 3 and k[0] in ('eq', 'is', 'cmp', 'in')):
            if isinstance(k, tuple) and k and k[0] in ('eq', 'is', 'cmp', 'in') and 'regions[' in repr(k) and '.id' in repr(k):
                out.append((k, v, False, None))
            continue
        r = repr(k)
        if 'regions[' not in r or '.id' not in r:
            continue
        slot = None
        raw = k[0] == 'eq'
        for side in (k[1], k[2]):
            if isinstance(side, tuple) and len(side) == 2 and side[0] == 'opaque' and isinstance(side[1], str) \
                    and side[1].endswith('.id') and side[1][:-3] in p.st.cls and side[1].startswith('regions['):
                slot = side[1][:-3]
            elif isinstance(side, tuple) and len(side) == 2 and side[0] in ('opaque', 'sstr') and isinstance(side[1], str) \
                    and '(' not in side[1].replace('range(0,len(regions))', '').replace('len(regions)', ''):
                pass
            else:
                raw = False
        if slot is None:
            raw = False
        out.append((k, v, raw, slot))
    return out
