"""C05 - retractions are never doubled and are recovered before printing resumes."""
import ast

from . import rx
from .retraction import explore
from .model import AnalysisError

PROP = 'C05'


def declare(c):
    c.rule('C05.R1', 'retraction-depth typestate: over every reachable sequence of matched retract / recover cycles and moves '
                     'inside / outside regions the physical depth stays between the file\'s depth and one cycle, differs from the '
                     'file only while a recovery is recorded as owed, and is zero when an extruding move is forwarded', floor=50)
    c.rule('C05.R3', 'generated firmware commands: G10 for retract / G11 for recover, parameters taken from the original command, '
                     'parity preserved', floor=1)
    c.rule('C05.R5', 'a generated E-only retract / recover pair (G92 E, G1 E) moves exactly the recorded length: both words are '
                     'file-unit values of native positions that differ by the recorded amount, in every unit system, and the '
                     'tracked E is left where it was', floor=2)
    c.rule('C05.R4', 'the parameter-extraction regex matches every normalised command text (a non-match would splice the whole '
                     'command into the generated one)', floor=1)


KIND_RULE = {'print-while-retracted': 'C05.R1', 'bad-generated': 'C05.R1', 'over-retract': 'C05.R1', 'under-retract': 'C05.R1',
             'depth-not-owed': 'C05.R1', 'fw-parity': 'C05.R3', 'fw-under': 'C05.R1', 'fw-not-owed': 'C05.R1', 'fw-params': 'C05.R3',
             'offset-outside': 'C05.R1', 'raise': 'C05.R1', 'unreadable': 'C05.R1'}


def machine_rule(ctx, tier):
    viol, stats = explore(ctx, ctx.model, tier)
    ctx.instance('C05.R1', 'states', n=stats['states'])
    ctx.instance('C05.R1', 'transitions', n=stats['transitions'])
    ctx.instance('C05.R3', 'transitions', n=stats['handler_transitions'])
    for i in range(min(400, stats['transitions'])):
        ctx.distinct.add(('C05.R1', i))
    ctx.extra['machine_states'] = stats['states']
    ctx.extra['machine_transitions'] = stats['transitions']
    for s in stats['samples']:
        ctx.sample(s)
    for v in viol:
        if v.get('prop') == 'C04' and v['kind'] != 'offset-outside':
            continue
        rule = KIND_RULE.get(v['kind'], 'C05.R1')
        text = v['text']
        if v['kind'] == 'offset-outside':
            text = ('a retraction outside a region is dropped without re-synchronising E: the file\'s following recovery '
                    'moves no filament, so the next printing move starts with the filament still retracted')
        ctx.report(rule, v['func'], v['construct'],
                   '%s; shortest program reaching it: %s%s' % (text, ' , '.join(v['trace']),
                                                              ('; step: ' + v['transition']) if v.get('transition') else ''),
                   detail={'trace': list(v['trace']), 'transition': v.get('transition')})


def regex_rule(ctx, rule='C05.R4'):
    rx.prepare(ctx.model)
    m = ctx.model
    node = m.consts.get(('RetractionState', 'GCODE_PARAMS_REGEX'))
    if not (isinstance(node, ast.Call) and node.args):
        raise AnalysisError('anchor vanished: RetractionState.GCODE_PARAMS_REGEX')
    pat = m.fold('RetractionState', node.args[0])
    # normalised command text as the hooks pass it: code, optional sub-code, optional " parameters" (no line breaks)
    # the command text as the hooks pass it: code, optional sub-code, then the parameters - with or without a blank in between
    # ("G10 S1", "G10S1"); OctoPrint strips leading blanks and only recognises a code whose number follows the letter directly
    normal = r"[GgMmTt][0-9]+(?:\.[0-9]+)?(?:[^0-9.\r\n][^\r\n]*)?"
    body = pat
    if body.startswith('^'):
        body = body[1:]
    if body.endswith('$'):
        body = body[:-1]
    ok, cex = rx.included(normal, body)
    ctx.instance(rule, pat)
    if not ok:
        ctx.report(rule, 'RetractionState._addCommands', 'GCODE_PARAMS_REGEX rejects "%s"' % rx.show(cex),
                   'for a command of the shape "%s" the regex does not match, re.sub then returns the whole command and the '
                   'generated firmware retraction becomes "G10 <whole original command>"' % rx.show(cex))
    ctx.sample({'rule': rule, 'pattern': pat})


def recorded_amount_c05(col, gcode, paths, I):
    declare(col)
    from .rules_c04 import recorded_amount
    recorded_amount(col, gcode, paths, I, 'C05.R5')
    from . import rules_c07
    col.rule('C07.R1', 'C07: every synthesised command is one G/M code followed by distinct single-letter words', floor=4)
    col.rule('C07.R2', 'C07: every numeric word of the generated retract / recover commands is rendered by an exponent-free formatter', floor=8)
    rules_c07.path_rules(col, gcode, paths, I, own=False)
    # a retraction is recognised as one only if the handler hands the words on as they are, and nothing else reaches the
    # printer inside an episode (C01 path rules, exact tracking and word wiring included)
    from .rules_c04 import c01_path_premise
    c01_path_premise(col, gcode, paths, I)


def run(ctx, tier):
    declare(ctx)
    try:
        machine_rule(ctx, tier)
    except AnalysisError as ex:
        # the other rules still run: a violation found there is reported, the unfinished machine fails the run only otherwise
        ctx.deferred_errors.append(str(ex))
    from .rules_c04 import addcommands_rule
    addcommands_rule(ctx, 'C05.R5', 'C05.R5')
    from .handlers import run_path_rules
    run_path_rules(ctx, __name__, 'recorded_amount_c05', ['G0', 'G1'], unroll=1)
    regex_rule(ctx)
    from .rules_c19 import tokeniser_premise
    tokeniser_premise(ctx)
    from .rules_c08 import frame_premise, state_code_premise
    frame_premise(ctx)
    state_code_premise(ctx)
    ctx.assume('matched equal-length cycles, E-only or firmware, not mixed (the property quantifier); travel moves that '
               'retract while moving are outside it')
