"""C17 - region geometry is sound (closed tests, corner normalisation, containment predicates)."""
import ast

from .entries import make_interp
from .state import State
from .pathfacts import live_alts
from .values import NONE, Num, Str, SStr, Cat, Obj, TupleV, Opaque, Choice, vkey
from .absint import Raised, Frame
from .model import AnalysisError
from .poly import Poly
from .calls import construct

PROP = 'C17'
RECT, CIRC = 'RectangularRegion', 'CircularRegion'


def declare(c):
    c.rule('C17.R1', 'containsPoint is exactly the closed rectangle / closed disc test on every outcome of its comparisons', floor=6)
    c.rule('C17.R2', 'constructor normalisation: whatever the order of the given corners, x1<=x2 and y1<=y2 hold and the '
                     'corner set is preserved', floor=4)
    c.rule('C17.R3', 'containsRegion answers True exactly when all its (non-strict) obligations hold: 4 sides for '
                     'rectangles, the 4 corners for a rectangle in a disc, centre distance + radius for discs', floor=12)
    c.rule('C17.R5', 'not-a-number parameters (the API accepts them): a region with a NaN coordinate contains no point, so it must '
                     'never be reported to contain a region and never to contain a point - guards are written so that an '
                     'unordered comparison refuses', floor=10)
    c.rule('C17.R4', 'each containsRegion handles every region class and rejects anything else', floor=4)


def sym(I, n):
    return I.symbol(n)


def S(n):
    return Poly.sym(n)


def fr():
    return Frame(None, RECT, ast.parse('def f(): pass').body[0], 0)


def mkrect(st, oid, I):
    st.cls[oid] = RECT
    for a in ('x1', 'y1', 'x2', 'y2'):
        st.heap[(oid, a)] = sym(I, '%s.%s' % (oid, a))
    return Obj(oid)


def mkcirc(st, oid, I):
    st.cls[oid] = CIRC
    for a in ('cx', 'cy'):
        st.heap[(oid, a)] = sym(I, '%s.%s' % (oid, a))
    st.heap[(oid, 'r')] = I.symbol('%s.r' % oid)        # any finite radius, a negative one describes the empty set
    return Obj(oid)


def spec_and(I, st, atoms):
    """atoms: [(poly, allowed sign set)] -> True / False / None (not determined by the path's decisions)"""
    alltrue = True
    for p, allowed in atoms:
        sg = p(st) if callable(p) else I.infer_signs(st, p)
        if sg <= allowed:
            continue
        if not (sg & allowed):
            return False
        alltrue = False
    return True if alltrue else None


GE0 = frozenset([0, 1])
LE0 = frozenset([-1, 0])


def hyp(I, a, b):
    """the hypot symbol for arguments a, b in any order / sign"""
    def forms(q):
        out = [q, -q]
        for c in ('abs(%r)' % (q,), 'abs(%r)' % (-q,)):
            if c in I.syminfo:
                out.append(Poly.sym(c))         # hypot(|a|, |b|) is hypot(a, b)
        return out
    cands = []
    for x in forms(a):
        for y in forms(b):
            cands.append('hypot(%r,%r)' % (x, y))
            cands.append('hypot(%r,%r)' % (y, x))
    for c in cands:
        if c in I.syminfo:
            return Poly.sym(c)
    return None


def in_disc(I, r, a, b):
    """sign of r - hypot(a, b) as a function of the path state, whichever way the code phrased the test:
    directly (r >= hypot(a, b)) or through squares (r >= 0 and a*a + b*b <= r*r).  For r < 0 the difference is negative;
    for r >= 0 it has the sign of r^2 - a^2 - b^2."""
    def signs(st):
        sr = I.infer_signs(st, r)
        out = set()
        if -1 in sr:
            out.add(-1)
        if sr & frozenset([0, 1]):
            out |= set(I.infer_signs(st, r * r - a * a - b * b))
        h = hyp(I, a, b)
        if h is not None:
            out &= set(I.infer_signs(st, r - h))
        # a decided bounding-box test settles the sign as well: |a| > r or |b| > r puts the point outside (hypot >= |a|)
        for q in (a, b):
            cands = [q, -q]
            for c in ('abs(%r)' % (q,), 'abs(%r)' % (-q,)):
                if c in I.syminfo:
                    cands.append(Poly.sym(c))
            if any(I.infer_signs(st, c - r) == frozenset([1]) for c in cands):
                out &= {-1}
        return frozenset(out)
    return signs


def check_predicate(ctx, I, rule, where, label, res, atoms_fn):
    n = 0
    for (s, v) in res:
        if isinstance(v, Raised):
            ctx.report(rule, where, '%s raises %s' % (label, v.exc), repr(v))
            continue
        got = None
        for x in live_alts(s, v):
            got = x
        atoms = atoms_fn(s)
        if atoms is None:
            ctx.report(rule, where, '%s: unexpected geometry' % label,
                       'the quantities compared are not the ones the closed-set test needs')
            continue
        want = spec_and(I, s, atoms)
        n += 1
        ctx.instance(rule, (label, repr(got), tuple(sorted(repr(k)[:60] for k in s.dom if k[0] == 'sgn'))[:6]))
        if got not in (True, False):
            ctx.report(rule, where, '%s returns %r' % (label, got), 'a geometric predicate must return a boolean')
        elif want is None:
            ctx.report(rule, where, '%s answers %s without deciding every obligation' % (label, got),
                       'the answer is given although a required comparison was not made (or was made on other quantities)')
        elif got != want:
            ctx.report(rule, where, '%s answers %s where the closed-set test says %s' % (label, got, want),
                       'strict/non-strict or side mix-up: on the decided ordering of the coordinates the answer is wrong')
    return n


def point_rules(ctx, I):
    st = State()
    R = mkrect(st, 'R', I)
    x, y = sym(I, 'px'), sym(I, 'py')
    res = I.run_method(st, RECT, 'containsPoint', R, [x, y])
    atoms = [(S('px') - S('R.x1'), GE0), (S('R.x2') - S('px'), GE0), (S('py') - S('R.y1'), GE0), (S('R.y2') - S('py'), GE0)]
    check_predicate(ctx, I, 'C17.R1', 'RectangularRegion.containsPoint', 'rectangle.containsPoint', res, lambda s: atoms)
    st = State()
    C = mkcirc(st, 'C', I)
    res = I.run_method(st, CIRC, 'containsPoint', C, [x, y])

    def circ_atoms(s):
        return [(in_disc(I, S('C.r'), S('px') - S('C.cx'), S('py') - S('C.cy')), GE0)]
    check_predicate(ctx, I, 'C17.R1', 'CircularRegion.containsPoint', 'disc.containsPoint', res, circ_atoms)


def ctor_rules(ctx, I):
    st = State()
    kw = {'x1': sym(I, 'a'), 'y1': sym(I, 'b'), 'x2': sym(I, 'c'), 'y2': sym(I, 'd'), 'id': Opaque('ID')}
    node = ast.parse('f()').body[0].value
    res = construct(I, st, RECT, [], kw, fr(), node)
    for (s, v) in res:
        if isinstance(v, Raised):
            ctx.report('C17.R2', 'RectangularRegion.__init__', 'raises %s' % v.exc, repr(v))
            continue
        vals = {}
        for a in ('x1', 'x2', 'y1', 'y2'):
            xs = live_alts(s, s.heap.get((v.oid, a)))
            vals[a] = xs[0].p if len(xs) == 1 and isinstance(xs[0], Num) else None
        ctx.instance('C17.R2', tuple(repr(vals[a]) for a in ('x1', 'x2', 'y1', 'y2')))
        for lo, hi, given in (('x1', 'x2', ('a', 'c')), ('y1', 'y2', ('b', 'd'))):
            if vals[lo] is None or vals[hi] is None:
                ctx.report('C17.R2', 'RectangularRegion.__init__', '%s/%s not numeric' % (lo, hi), '')
                continue
            if set([repr(vals[lo]), repr(vals[hi])]) != set(given):
                ctx.report('C17.R2', 'RectangularRegion.__init__', '%s,%s = %r,%r' % (lo, hi, vals[lo], vals[hi]),
                           'the stored edges are not the two given coordinates')
            elif not (I.infer_signs(s, vals[hi] - vals[lo]) <= GE0):
                ctx.report('C17.R2', 'RectangularRegion.__init__', '%s > %s possible' % (lo, hi),
                           'corner normalisation does not establish %s <= %s for every order of the given corners: a '
                           'rectangle given by its other diagonal contains no point' % (lo, hi))


def region_rules(ctx, I):
    # rectangle contains rectangle
    st = State()
    R, O = mkrect(st, 'R', I), mkrect(st, 'O', I)
    res = I.run_method(st, RECT, 'containsRegion', R, [O])
    atoms = [(S('O.x1') - S('R.x1'), GE0), (S('R.x2') - S('O.x2'), GE0), (S('O.y1') - S('R.y1'), GE0), (S('R.y2') - S('O.y2'), GE0)]
    check_predicate(ctx, I, 'C17.R3', 'RectangularRegion.containsRegion', 'rectangle>=rectangle', res, lambda s: atoms)
    # rectangle contains disc
    st = State()
    R, C = mkrect(st, 'R', I), mkcirc(st, 'C', I)
    res = I.run_method(st, RECT, 'containsRegion', R, [C])
    atoms2 = [(S('C.cx') - S('C.r') - S('R.x1'), GE0), (S('R.x2') - S('C.cx') - S('C.r'), GE0),
              (S('C.cy') - S('C.r') - S('R.y1'), GE0), (S('R.y2') - S('C.cy') - S('C.r'), GE0)]
    check_predicate(ctx, I, 'C17.R3', 'RectangularRegion.containsRegion', 'rectangle>=disc', res, lambda s: atoms2)
    # disc contains rectangle: all four corners
    st = State()
    C, O = mkcirc(st, 'C', I), mkrect(st, 'O', I)
    res = I.run_method(st, CIRC, 'containsRegion', C, [O])

    def corner_atoms(s):
        out = []
        for xn in ('O.x1', 'O.x2'):
            for yn in ('O.y1', 'O.y2'):
                out.append((in_disc(I, S('C.r'), S(xn) - S('C.cx'), S(yn) - S('C.cy')), GE0))
        return out
    check_predicate(ctx, I, 'C17.R3', 'CircularRegion.containsRegion', 'disc>=rectangle', res, corner_atoms)
    # disc contains disc
    st = State()
    C, D = mkcirc(st, 'C', I), mkcirc(st, 'D', I)
    res = I.run_method(st, CIRC, 'containsRegion', C, [D])

    def disc_atoms(s):
        h = hyp(I, S('C.cx') - S('D.cx'), S('C.cy') - S('D.cy'))
        if h is None:
            return None
        return [(S('C.r') - h - S('D.r'), GE0)]
    check_predicate(ctx, I, 'C17.R3', 'CircularRegion.containsRegion', 'disc>=disc', res, disc_atoms)


def nan_rules(ctx, I):
    """one parameter of the outer region at a time is NaN: containsPoint and containsRegion must answer False on every path"""
    cases = []
    for outer, ofields in ((RECT, ('x1', 'y1', 'x2', 'y2')), (CIRC, ('cx', 'cy', 'r'))):
        for fld in ofields:
            cases.append((outer, fld, None))
            for inner in (RECT, CIRC):
                cases.append((outer, fld, inner))
    for outer, fld, inner in cases:
        st = State()
        O = mkrect(st, 'R', I) if outer == RECT else mkcirc(st, 'R', I)
        I.nan_symbols = set(['R.' + fld])
        try:
            if inner is None:
                res = I.run_method(st, outer, 'containsPoint', O, [sym(I, 'px'), sym(I, 'py')])
                what = 'containsPoint'
            else:
                X = mkrect(st, 'X', I) if inner == RECT else mkcirc(st, 'X', I)
                res = I.run_method(st, outer, 'containsRegion', O, [X])
                what = 'containsRegion(%s)' % ('rectangle' if inner == RECT else 'disc')
        finally:
            I.nan_symbols = set()
        for (s, v) in res:
            ctx.instance('C17.R5', (outer, fld, what, repr(v)[:20]))
            if isinstance(v, Raised):
                continue
            for x in live_alts(s, v):
                if x is not False:
                    ctx.report('C17.R5', '%s.%s' % (outer, what.split('(')[0]), '%s with NaN %s answers %r' % (what, fld, x),
                               'a %s whose %s is not a number contains no point (every comparison with it is False), yet %s answers '
                               '%r: the guard is phrased negatively ("not (a < b or ...)") or skips the comparison - during a print '
                               'an update to such a region would be accepted and un-exclude everything the old region covered'
                               % ('rectangle' if outer == RECT else 'disc', fld, what, x))


def exhaustive_rule(ctx, I):
    classes = [c for c in (RECT, CIRC) if ctx.model.lookup(c, 'containsPoint')[1] is not None]
    others = sorted(c for c, ci in ctx.model.classes.items() if 'containsPoint' in ci.methods)
    for outer in classes:
        for inner in others + ['SomethingElse']:
            st = State()
            A = mkrect(st, 'A', I) if outer == RECT else mkcirc(st, 'A', I)
            if inner == RECT:
                B = mkrect(st, 'B', I)
            elif inner == CIRC:
                B = mkcirc(st, 'B', I)
            else:
                st.cls['B'] = inner
                B = Obj('B')
            res = I.run_method(st, outer, 'containsRegion', A, [B])
            raised = [v for (_s, v) in res if isinstance(v, Raised)]
            ctx.instance('C17.R4', (outer, inner, len(res), len(raised)))
            if inner in (RECT, CIRC) and raised:
                ctx.report('C17.R4', '%s.containsRegion' % outer, '%s inside %s raises' % (inner, outer), repr(raised[0]))
            if inner not in (RECT, CIRC) and len(raised) != len(res):
                ctx.report('C17.R4', '%s.containsRegion' % outer, 'unknown region class accepted',
                           'a region of an unsupported class is not rejected; an update could be accepted without a '
                           'containment test that understands it')


def run(ctx, tier):
    declare(ctx)
    I = make_interp(ctx.model, modular=False)
    I.merge_ifs = False
    point_rules(ctx, I)
    ctor_rules(ctx, I)
    region_rules(ctx, I)
    exhaustive_rule(ctx, I)
    nan_rules(ctx, I)
    ctx.assume('real arithmetic (no rounding at touching borders); radii of any sign; NaN parameters only through C17.R5')
    ctx.assume('that the four corners / extreme points imply containment of the whole inner region is a convexity '
               'argument over the reals and is not decided here')
