"""C19 - parameter extraction matches the RS274/Marlin reading."""
import ast
import re

from . import rx
from .handlers import run_path_rules
from .entries import make_interp
from .state import State
from .pathfacts import Facts, live_alts, S_OID
from .values import NONE, Num, Str, SStr, Cat, Obj, TupleV, Opaque, Choice, IterV, vkey
from .absint import Raised
from .model import AnalysisError
from .rules_c18 import parser_interp, pattern, compiled_pattern, GP

PROP = 'C19'
# reference: RS274 / Marlin decimal numbers without exponent
RS274_NUMBER = r"[-+]?(?:[0-9]+\.?[0-9]*|\.[0-9]+)"


def declare(c):
    c.rule('C19.R1', 'number language: every value the tokeniser accepts is an RS274 decimal, and every RS274 decimal is '
                     'an accepted value followed by at most one "."', floor=2)
    c.rule('C19.R2', 'the tokeniser regex matches a prefix of every remainder that is not only spaces (the word loop '
                     'cannot stop early)', floor=1)
    c.rule('C19.R3', 'parameterItems yields (upper-cased letter, float(value) | None) in source order and continues at the '
                     'end of each match; parameterDict is last-wins', floor=4)
    c.rule('C19.R7', 'the shared parser reads the command it is handed from its beginning, whatever it parsed before (the same '
                     'command twice in a row yields the same words twice)', floor=2)
    c.rule('C19.R5', 'a repeated word: the handlers act on the last value given for the letter', floor=8)
    c.rule('C19.R6', 'the trailing (\'\', text) item of parameterItems (value-less words, stray text) never changes what a '
                       'handler does', floor=100)
    c.rule('C19.R4', 'letter -> argument flow: each axis/feed/offset is fed only by its own letter; valueless words are '
                     'skipped', floor=100)


def language_rules(ctx):
    rx.prepare(ctx.model)
    rx.refine_alphabet([RS274_NUMBER])
    num = pattern(ctx.model, 'PAT_SIGNED_FLOAT')
    ok, cex = rx.included(num, RS274_NUMBER)
    ctx.instance('C19.R1', 'subset')
    if not ok:
        ctx.report('C19.R1', 'GcodeParser.PAT_SIGNED_FLOAT', 'accepts "%s"' % rx.show(cex),
                   'the value pattern accepts "%s", which is not an RS274 decimal number (float() may fail or mean something else)'
                   % rx.show(cex))
    ok, cex = rx.included(RS274_NUMBER, '(?:' + num + r')\.?')
    ctx.instance('C19.R1', 'superset')
    if not ok:
        ctx.report('C19.R1', 'GcodeParser.PAT_SIGNED_FLOAT', 'rejects "%s"' % rx.show(cex),
                   'the RS274 number "%s" is not read as one value: the word would be split or its value lost' % rx.show(cex))
    # tokeniser progress
    tok = compiled_pattern(ctx.model, 'REGEX_PARAMETER_OR_STR')
    nfa, s, f = rx.compile_nfa(tok)
    nfa.t(f, rx.SIGMA, f)
    start, states, trans, acc = rx.dfa(nfa, s, f, rx.SIGMA)
    seen = {(start, False): ()}
    work = [(start, False)]
    bad = None
    while work:
        S, nonspace = work.pop()
        if nonspace and S not in acc and all(trans[(S, a)] not in acc for a in rx.SIGMA) and not any(x for x in S):
            bad = seen[(S, nonspace)]
            break
        for a in rx.SIGMA:
            T = trans[(S, a)]
            key = (T, nonspace or a != ' ')
            if key not in seen:
                seen[key] = seen[(S, nonspace)] + (a,)
                work.append(key)
    # a remainder with a non-space character whose every prefix fails: dead (empty) DFA state reached
    dead = [w for (S, ns), w in seen.items() if ns and not S]
    ctx.instance('C19.R2', ('dfa-states', len(states)))
    if dead:
        w = min(dead, key=len)
        ctx.report('C19.R2', 'GcodeParser.parameterItems', 'no token matches "%s"' % rx.show(w),
                   'the tokeniser stops at a remainder starting with "%s": the words after it are silently dropped' % rx.show(w))
    # letters: a word letter is any ASCII letter, both cases
    ctx.sample({'rule': 'C19.R1/R2', 'tokeniser_dfa_states': len(states)})


def items_rules(ctx, I):
    st = State()
    st.cls['GP'] = GP
    st.heap[('GP', '_parameters')] = SStr('PARAMS')
    res = I.run_method(st, GP, 'parameterItems', Obj('GP'), [])
    multi = False
    for (s, v) in res:
        if isinstance(v, Raised):
            ctx.report('C19.R3', (v.where or ('GcodeParser.parameterItems', 0))[0], 'raises %s: %s' % (v.exc, v.info),
                       'reading the words of a command can raise')
            continue
        if not isinstance(v, IterV):
            ctx.report('C19.R3', 'GcodeParser.parameterItems', 'returns %r' % (v,), 'not a sequence of pairs')
            continue
        ms = [e for e in s.trace if e[0] == 'regex-match']
        ctx.instance('C19.R3', ('items', len(ms), len(v.elems)))
        # offsets chain: first at 0, then previous end
        prev = None
        tags = []
        for e in ms:
            src, off = e[2][0], e[2][1]
            offs = live_alts(s, off)
            if not (isinstance(src, SStr) and src.tag == 'PARAMS'):
                ctx.report('C19.R3', 'GcodeParser.parameterItems', 'tokenises %r' % (src,), 'the tokeniser does not run over the parameter string')
            if prev is None:
                good = all(isinstance(o, Num) and o.is_const() and o.p.const_value() == 0 for o in offs)
            else:
                multi = True
                good = all(isinstance(o, Num) and o.p.single_symbol() == prev + '.end()' for o in offs)
            if not good:
                ctx.report('C19.R3', 'GcodeParser.parameterItems', 'token offset %r' % (offs,),
                           'the next word must be searched exactly where the previous match ended')
            prev = 'M:REGEX_PARAMETER_OR_STR(PARAMS,%s)' % ','.join(repr(o.p) for o in offs if isinstance(o, Num))
            tags.append(prev)
        # completeness: every word the regex matched with a letter (group 1 present) is yielded - none is skipped
        yielded = set()
        for el in v.elems:
            if isinstance(el, TupleV) and len(el.elems) == 2:
                for n in live_alts(s, el.elems[0]):
                    mm = re.match(r"upper\((M:REGEX_PARAMETER_OR_STR\(.*\))\.g1\)$", getattr(n, 'tag', ''))
                    if mm:
                        yielded.add(mm.group(1))
        for t in tags:
            if s.dom.get(('nogroup', t, ('guard', 0))) == frozenset([False]) and t not in yielded:
                ctx.report('C19.R3', 'GcodeParser.parameterItems', 'a matched word is not yielded',
                           'on some path the tokeniser matches a word with a letter and no item is produced for it (skipped, '
                           'merged with an earlier one, ...): the handlers never see that word, so the last value given for the '
                           'letter is not the one they act on')
                break
        # yielded pairs, in match order
        k = 0
        for el in v.elems:
            if not (isinstance(el, TupleV) and len(el.elems) == 2):
                ctx.report('C19.R3', 'GcodeParser.parameterItems', 'yields %r' % (el,), 'items must be (name, value) pairs')
                continue
            name, val = el.elems
            names = live_alts(s, name)
            if all(isinstance(n, Str) and n.s == '' for n in names):
                continue        # trailing string argument
            for n in names:
                m = re.match(r"upper\((M:REGEX_PARAMETER_OR_STR\(.*\))\.g1\)$", getattr(n, 'tag', ''))
                if not m:
                    ctx.report('C19.R3', 'GcodeParser.parameterItems', 'name %r' % (n,),
                               'the yielded name is not the upper-cased letter of the word (group 1)')
                    continue
                if m.group(1) not in tags or tags.index(m.group(1)) < k:
                    ctx.report('C19.R3', 'GcodeParser.parameterItems', 'order of yields', 'words are not yielded in source order')
                else:
                    k = tags.index(m.group(1))
                for x in live_alts(s, val):
                    if x is NONE:
                        continue
                    ok = isinstance(x, Num) and x.p.single_symbol() and x.p.single_symbol().startswith('float(' + m.group(1) + '.g2')
                    if not ok:
                        ctx.report('C19.R3', 'GcodeParser.parameterItems', 'value %r' % (x,),
                                   'the yielded value is not float() of the word\'s number text (group 2)')
    if not multi:
        raise AnalysisError('parameterItems: no path with two consecutive words')
    # parameterDict: last value wins
    def two_items(I, st, recv, args, kw, frame, node):
        return [(st, IterV([TupleV([Str('X'), Num.const(1.0)]), TupleV([Str('Y'), Num.const(5.0)]),
                            TupleV([Str('X'), Num.const(2.0)])], 'items'))]
    I.summaries[(GP, 'parameterItems')] = two_items
    st = State()
    st.cls['GP'] = GP
    st.heap[('GP', '_parameters')] = SStr('PARAMS')
    st.heap[('GP', '_parameterDict')] = NONE
    from .exprs import getattr_value
    from .rules_c18 import frame
    for (s, v) in getattr_value(I, st, Obj('GP'), 'parameterDict', frame()):
        ctx.instance('C19.R3', 'parameterDict')
        items = s.maps.get(getattr(v, 'oid', None), None)
        got = [(it[1].s, it[2].p.const_value()) for it in (items or ()) if it[0] == 'kv' and isinstance(it[1], Str) and isinstance(it[2], Num)]
        if got != [('X', 2), ('Y', 5)]:
            ctx.report('C19.R3', 'GcodeParser.parameterDict', 'X1 Y5 X2 -> %s' % got,
                       'for a repeated letter the dictionary must hold the last value (Marlin keeps the last occurrence)')
    del I.summaries[(GP, 'parameterItems')]


# letter that may legitimately feed each tracked quantity, per handler
def path_rules(col, gcode, paths, I, own=True):
    if own:
        declare(col)
    letters = set('XYZEFRIJPLS')
    strarg_rule(col, gcode, paths, I)
    for p in paths:
        f = Facts(p, I)
        if f.raised:
            continue
        sig = (gcode, f.describe(), tuple(f.decisions()[-4:]))
        col.instance('C19.R4', sig)
        targets = []
        for axis, letter in (('X_AXIS', 'X'), ('Y_AXIS', 'Y'), ('Z_AXIS', 'Z'), ('E_AXIS', 'E')):
            for attr in ('current', 'offset', 'homeOffset'):
                targets.append(('%s.position.%s' % (S_OID, axis), attr, letter))
        targets.append((S_OID, 'feedRate', 'F'))
        for oid, attr, letter in targets:
            for v in f.final(oid, attr):
                if not isinstance(v, Num):
                    continue
                deps = set()
                for s in v.p.symbols():
                    deps.add(s)
                    deps |= I.symdeps(s)
                used = set(d[2:] for d in deps if d.startswith('p:'))
                allowed = {letter}
                if gcode in ('G2', 'G3') and letter in ('X', 'Y'):
                    allowed = {'X', 'Y', 'I', 'J', 'R'}      # arc samples depend on the whole arc geometry
                wrong = used - allowed
                if wrong:
                    col.report('C19.R4', 'GcodeHandlers._handle_%s' % gcode, '%s.%s fed by word %s' % (oid.split('.')[-1], attr, ','.join(sorted(wrong))),
                               'the %s word of %s ends up in %s.%s (expected only %s)' % (','.join(sorted(wrong)), gcode, oid, attr, letter),
                               detail={'entry': p.entry, 'decisions': f.decisions()})
                # a valued word of the handler's own letters must arrive
                if gcode in ('G0', 'G1') and attr == 'current' and letter in 'XYZE' and f.valued(letter) and letter not in used:
                    col.report('C19.R4', 'GcodeHandlers._handle_%s' % gcode, '%s word ignored' % letter,
                               '%s carries a %s value that does not reach the tracked %s position' % (gcode, letter, letter),
                               detail={'entry': p.entry, 'decisions': f.decisions()})
                if gcode == 'G92' and attr == ('current' if letter == 'E' else 'offset') and f.valued(letter) and letter not in used:
                    col.report('C19.R4', 'GcodeHandlers._handle_G92', '%s word ignored' % letter,
                               'G92 carries a %s value that is not applied' % letter)
                if gcode == 'M206' and attr == 'homeOffset' and letter in 'XYZ' and f.valued(letter) and letter not in used:
                    col.report('C19.R4', 'GcodeHandlers._handle_M206', '%s word ignored' % letter,
                               'M206 carries a %s value that is not applied' % letter)
        # M206: exact post-state (home offset = word * unit; nothing else moves)
        if gcode == 'M206':
            from .pathfacts import CMDKEY
            from .poly import Poly
            for axis, letter in (('X_AXIS', 'X'), ('Y_AXIS', 'Y'), ('Z_AXIS', 'Z')):
                aoid = '%s.position.%s' % (S_OID, axis)
                for status, want in ((frozenset(['V']), Poly.sym('p:%s' % letter) * Poly.sym(aoid + '.unitMultiplier')),
                                     (frozenset(['A', 'F']), Poly.sym(aoid + '.homeOffset'))):
                    if not (f.pstatus(letter) & status):
                        continue
                    for v in f.final(aoid, 'homeOffset', {('param', CMDKEY, letter): status}):
                        if isinstance(v, Num) and v.p != want:
                            col.report('C19.R4', 'GcodeHandlers._handle_M206', 'M206 %s: home offset becomes %r' % (letter, v.p),
                                       'expected %r (the word in native units when it carries a value, unchanged otherwise)' % (want,),
                                       detail={'entry': p.entry, 'decisions': f.decisions()})
        # arc centre words reach the planner in the right slots
        if gcode in ('G2', 'G3'):
            for e in p.st.trace:
                pass
        # G28: flags
        if gcode == 'G28':
            flags = {L: ('A' not in f.pstatus(L)) for L in 'XYZ'}
            none = all('A' in f.pstatus(L) and len(f.pstatus(L)) == 1 for L in 'XYZ')
            for axis, L in (('X_AXIS', 'X'), ('Y_AXIS', 'Y'), ('Z_AXIS', 'Z')):
                homed = any(e[0] == 'write' and e[4] == '%s.position.%s' % (S_OID, axis) and e[2] == 'current' for e in p.st.trace)
                present = f.pstatus(L) <= frozenset(['F', 'V'])
                absent = f.pstatus(L) == frozenset(['A'])
                anyflag = any(f.pstatus(M) <= frozenset(['F', 'V']) for M in 'XYZ')
                allabsent = all(f.pstatus(M) == frozenset(['A']) for M in 'XYZ')
                if present and not homed:
                    col.report('C19.R4', 'GcodeHandlers._handle_G28', 'G28 %s does not home %s' % (L, L), 'axis flag ignored')
                if absent and anyflag and homed:
                    col.report('C19.R4', 'GcodeHandlers._handle_G28', 'G28 homes %s without its flag' % L,
                               'an axis is homed although other axes were named and this one was not')
                if allabsent and not homed:
                    col.report('C19.R4', 'GcodeHandlers._handle_G28', 'bare G28 does not home %s' % L, 'G28 without flags homes all axes')


def strarg_rule(col, gcode, paths, I):
    """parameterItems ends with a ('', text) item whenever the command has a value-less word or text that is no word; it is
    not a letter/value pair of the reference reading, so a handler must behave the same with and without it"""
    from .values import vkey
    key = ('param', ('sstr', 'CMD'), '')
    with_item, without = set(), set()
    example = {}
    for p in paths:
        f = Facts(p, I)
        dom = p.st.dom.get(key)
        col.instance('C19.R6', (gcode, f.describe(), tuple(f.decisions()[-4:])))
        if dom is None or len(dom) != 1:
            continue
        heap = tuple(sorted((repr(k), repr(vkey(v))) for k, v in p.st.heap.items() if str(k[0]).startswith('H.state')))
        others = tuple(d for d in f.decisions() if "'')" not in d)
        sig = ('raises' if f.raised else f.describe(), heap, others)
        (with_item if dom == frozenset(['F']) else without).add(sig)
        example.setdefault(sig, (p, f))
    for sig in sorted(with_item ^ without, key=repr)[:4]:
        p, f = example[sig]
        col.report('C19.R6', 'GcodeHandlers._handle_%s' % gcode,
                   '%s reacts to the string-argument item (%s it: %s)' % (gcode, 'with' if sig in with_item else 'without', sig[0]),
                   'the handler behaves differently when parameterItems appends its (\'\', text) item - that is for "%s S" or '
                   '"%s S1." as opposed to "%s S1": the item is not a parameter word (a membership test against a string, or '
                   'a comparison that the empty label satisfies?)' % (gcode, gcode, gcode),
                   detail={'entry': p.entry, 'decisions': f.decisions()})


def dup_rules(col, gcode, paths, I):
    """the last occurrence of a repeated word wins (Marlin keeps the last value seen)"""
    declare(col)
    dups = sorted(getattr(I, 'param_dups', ()))
    table = {'X': ('X_AXIS', None), 'Y': ('Y_AXIS', None), 'Z': ('Z_AXIS', None), 'E': ('E_AXIS', None), 'F': (None, 'feedRate')}
    for p in paths:
        f = Facts(p, I)
        if f.raised:
            continue
        for L in dups:
            k1, k2 = ('param', ('sstr', 'CMD'), L), ('param', ('sstr', 'CMD'), L + '#2')
            first = p.st.dom.get(k1, frozenset(['A', 'F', 'V']))
            second = p.st.dom.get(k2, frozenset(['A', 'F', 'V']))
            if 'V' not in first or 'V' not in second:
                continue
            assume = {k1: frozenset(['V']), k2: frozenset(['V'])}
            axis, fld = table[L]
            if gcode in ('G0', 'G1'):
                targets = [(S_OID, fld)] if fld else [('%s.position.%s' % (S_OID, axis), 'current')]
            elif gcode == 'G92':
                if fld:
                    continue
                targets = [('%s.position.%s' % (S_OID, axis), 'current' if L == 'E' else 'offset')]
            elif gcode == 'M206':
                if fld or L == 'E':
                    continue
                targets = [('%s.position.%s' % (S_OID, axis), 'homeOffset')]
            else:
                continue
            for oid, attr in targets:
                for v in f.final(oid, attr, assume):
                    if not isinstance(v, Num):
                        continue
                    deps = set()
                    for s2 in v.p.symbols():
                        deps.add(s2)
                        deps |= I.symdeps(s2)
                    col.instance('C19.R5', (gcode, L, f.describe()))
                    if ('p:%s#2' % L) not in deps:
                        col.report('C19.R5', 'GcodeHandlers._handle_%s' % gcode, '%s: repeated %s word, first one wins' % (gcode, L),
                                   'for "%s %s<a> %s<b>" the handler acts on the first value; firmware (and parameterDict) '
                                   'use the last' % (gcode, L, L), detail={'entry': p.entry})
                    elif gcode in ('G0', 'G1') and ('p:%s' % L) in deps and L in 'XYZEF':
                        # absolute mode: the first value must not contribute at all
                        aoid = oid
                        if p.fld(aoid, 'absoluteMode') is True and False:
                            col.report('C19.R5', 'GcodeHandlers._handle_%s' % gcode, '%s: repeated %s word, values accumulated' % (gcode, L),
                                       'both values of a repeated %s word influence the result' % L, detail={'entry': p.entry})


def run(ctx, tier):
    declare(ctx)
    ctx.rule('C19.R5', 'a repeated word: the handlers act on the last value given for the letter', floor=8)
    language_rules(ctx)
    I = parser_interp(ctx.model, unroll=3 if tier == 'thorough' else 2)
    items_rules(ctx, I)
    from .rules_c18 import rewind_rule
    rewind_rule(ctx, I, 'C19.R7')
    # the handlers' one parser object is re-used for every command: what a reader sees (words, cached word map) must belong to
    # the command just parsed - parse() re-assigns every attribute a reader uses (C18.R5 as premise)
    ctx.rule('C19.R8', 'the shared parser carries nothing from command to command: parse() re-assigns every attribute a reader uses '
                       '(parameters, cached parameter map, ...) on every path', floor=10)
    from . import rules_c18
    rules_c18.parse_rules(ctx, rules_c18.parser_interp(ctx.model, unroll=2), r5='C19.R8', freshness_only=True)
    run_path_rules(ctx, __name__, 'path_rules', ['G0', 'G1', 'G2', 'G3', 'G92', 'M206', 'G28', 'G10'], unroll=1)
    dup_tasks = [('G0', {'param_dups': [L]}) for L in 'XYZEF'] + [('G92', {'param_dups': [L]}) for L in 'XYZE'] + \
        [('M206', {'param_dups': [L]}) for L in 'XYZ']
    run_path_rules(ctx, __name__, 'dup_rules', dup_tasks, unroll=1)
    ctx.assume('float(text) agrees with a firmware strtod on RS274 decimals without exponent')
    ctx.assume('each letter is modelled with at most one occurrence per command in the handler analysis; repeated letters '
               'are covered by the parameterDict rule and by the plain (unguarded) assignments of the handler loops')


def tokeniser_premise(ctx):
    """C19.R1-R3 as premises of a property that reads the words of a command (number language, tokeniser progress, items)"""
    ctx.rule('C19.R1', 'C19: every RS274 decimal is read as one value and nothing else is', floor=2)
    ctx.rule('C19.R2', 'C19: the word tokeniser cannot stop early', floor=1)
    ctx.rule('C19.R3', 'C19: parameterItems yields (upper-cased letter, float | None) in source order', floor=4)
    language_rules(ctx)
    items_rules(ctx, parser_interp(ctx.model, unroll=2))
