"""Path merging: branches / iterations that differ only in data values are joined into guarded Choice values.

This is purely an optimisation of the path enumeration: the merged state denotes exactly the union of the
branch states (each alternative keeps the decisions it was reached under as its guard), so no behaviour is
lost or added.  Anything that is not a plain data difference (allocation, container mutation, boolean or
object-valued change, non-normal outcome, external call) is never merged.
"""
from .values import (NONE, Num, Str, SStr, Cat, Obj, TupleV, Star, Choice, Opaque, vkey)

BENIGN = ('write', 'divide', 'convert')
SCRATCH = ('GcodeParser',)


def is_data(v):
    if v is NONE or isinstance(v, (Num, Str, SStr, Cat)):
        return True
    if isinstance(v, Choice):
        return all(is_data(x) for _, x in v.alts)
    return False


def same(a, b):
    return a is b or (type(a) is type(b) and not isinstance(a, (bool,)) and a is not None and vkey(a) == vkey(b)) \
        or (a is True and b is True) or (a is False and b is False)


def dom_delta(base, s):
    return {k: v for k, v in s.dom.items() if base.dom.get(k) != v}


def if_with_merge(I, st, env, s, frame):
    if not getattr(I, 'merge_ifs', True):
        return I.plain_if(st, env, s, frame)
    s0 = st.clone()
    e0 = dict(env)
    results = I.plain_if(s0, e0, s, frame)
    if len(results) < 2:
        return results
    merged = try_merge(I, st, env, results)
    if merged is None:
        return results
    return [merged]


def try_merge(I, st, env, results, ignore_env=()):
    nbase = len(st.trace)
    heap_changes = {}
    env_changes = set()
    events = []
    for (s2, e2, oc) in results:
        for oid, items in s2.maps.items():
            if oid.startswith('const:') and oid not in st.maps:
                st.maps[oid] = items            # read-only module table, built on first use
                st.cls[oid] = 'dict'
    rets = [oc for (_s, _e, oc) in results]
    all_ret = all(oc is not None and oc[0] == 'ret' and is_data(oc[1]) for oc in rets)
    for (s2, e2, oc) in results:
        if oc is not None and not all_ret:
            return None
        if s2.n != st.n or s2.flags != st.flags or s2.maps != st.maps or s2.seqs != st.seqs \
                or len(s2.cls) != len(st.cls):
            return None
        for ev in s2.trace[nbase:]:
            if ev[0] not in BENIGN:
                return None
            if ev[0] != 'write':
                if ev not in events:
                    events.append(ev)
        for k, v in s2.heap.items():
            if k not in st.heap or not same(st.heap[k], v):
                heap_changes.setdefault(k, None)
        for k in set(e2) | set(env):
            if k in ignore_env:
                continue
            if not same(e2.get(k, NONE), env.get(k, NONE)) or (k in e2) != (k in env):
                env_changes.add(k)
    adopt = {}
    for k in list(heap_changes):
        vals = [s2.heap.get(k, st.heap.get(k)) for (s2, _e, _o) in results]
        if k not in st.heap and all(v is not None for v in vals) and all(same(vals[0], v) for v in vals[1:]):
            adopt[k] = vals[0]      # lazily materialised by every branch alike
            del heap_changes[k]
            continue
        if any(v is None for v in vals):
            # materialised in one branch only: materialise in the base state first, then it is unchanged or data
            return None
        if not all(is_data(v) for v in vals) or (k in st.heap and not is_data(st.heap[k])):
            return None
    for k in env_changes:
        for (s2, e2, _o) in results:
            if k not in e2 and k not in env:
                continue
            if not is_data(e2.get(k, NONE)):
                return None
        if k in env and not is_data(env[k]):
            return None
        if any(k not in e2 for (_s, e2, _o) in results):
            return None
    deltas = [dom_delta(st, s2) for (s2, _e, _o) in results]
    for k, v in adopt.items():
        st.heap[k] = v
    for k in heap_changes:
        alts = [(d, s2.heap.get(k, st.heap.get(k))) for d, (s2, _e, _o) in zip(deltas, results)]
        val = Choice(_merge_alts(alts))
        if len(val.alts) == 1:
            val = val.alts[0][1]
        st.heap[k] = val
        cls = st.cls.get(k[0], '?')
        st.ev('write', cls, k[1], val, k[0], 'merged', False)
    for ev in events:
        st.trace.append(ev)
    for k in env_changes:
        alts = [(d, e2[k]) for d, (_s, e2, _o) in zip(deltas, results)]
        val = Choice(_merge_alts(alts))
        if len(val.alts) == 1:
            val = val.alts[0][1]
        env[k] = val
    I.stats['merges'] = I.stats.get('merges', 0) + 1
    if all_ret:
        alts = [(d, oc[1]) for d, oc in zip(deltas, rets)]
        val = Choice(_merge_alts(alts))
        if len(val.alts) == 1 and not val.alts[0][0]:
            val = val.alts[0][1]
        return (st, env, ('ret', val))
    return (st, env, None)


def _merge_alts(alts):
    from .loops import _merge_alts as m
    return m(alts)
