"""C11 - filtering is gated by the print lifecycle."""
import ast

from .entries import make_interp, run_plugin_method, gcodes_to_analyse, unknown_subcode
from .pathfacts import Facts, live_alts
from .plugin import effects, region_mutations, notifications
from .values import NONE, Num, Str, SStr, Obj, TupleV, Opaque
from .absint import Raised
from .model import AnalysisError
from . import census

PROP = 'C11'
END_EVENTS = ('PRINT_DONE', 'PRINT_FAILED', 'PRINT_CANCELLING', 'PRINT_CANCELLED', 'ERROR')
NEUTRAL_EVENTS = ('PRINT_PAUSED', 'PRINT_RESUMED', 'SOME_OTHER_EVENT')


def declare(c):
    c.rule('C11.R1', 'event machine equals the reference table: started => active + reset keeping regions; '
                     'done/failed/cancelling/cancelled/error => inactive, regions cleared iff setting; file selected => '
                     'regions cleared; anything else => nothing', floor=20)
    c.rule('C11.R2', 'with no active print every hook returns None and has no effect', floor=10)
    c.rule('C11.R3', '_activePrintJob is written only by __init__, initialize and on_event', floor=3)


def mentioned_events(model):
    fn = model.method('ExcludeRegionPlugin', 'on_event')
    out = set()
    for n in ast.walk(fn):
        if isinstance(n, ast.Attribute) and isinstance(n.value, ast.Name) and n.value.id == 'Events':
            out.add(n.attr)
    return out


def active_after(p, before):
    w = [e for e in p.st.trace if e[0] == 'write' and e[1] == 'ExcludeRegionPlugin' and e[2] == '_activePrintJob']
    if not w:
        return before
    v = live_alts(p.st, w[-1][3])
    return v[0] if len(v) == 1 else '?'


def event_rule(ctx, I):
    events = sorted(mentioned_events(ctx.model) | set(END_EVENTS) | set(NEUTRAL_EVENTS) |
                    {'PRINT_STARTED', 'FILE_SELECTED', 'SETTINGS_UPDATED'})
    for ev in events:
        for active in (True, False):
            for clear in (True, False):
                restrict = {('fld', 'P', '_activePrintJob'): [active], ('fld', 'P', 'clearRegionsAfterPrintFinishes'): [clear]}
                paths = run_plugin_method(I, 'on_event', [Str('Events.' + ev), Opaque('payload')], restrict=restrict)
                for p in paths:
                    key = (ev, active, clear)
                    ctx.instance('C11.R1', key + (len(p.st.trace),))
                    where = 'ExcludeRegionPlugin.on_event'
                    tag = '%s (active=%s, clearAfterPrint=%s)' % (ev, active, clear)
                    if isinstance(p.ret, Raised) and ev == 'SETTINGS_UPDATED':
                        continue    # invalid stored settings (rejected by the configuration classes): not an event matter
                    if isinstance(p.ret, Raised):
                        ctx.report('C11.R1', where, tag + ' raises', repr(p.ret))
                        continue
                    after = active_after(p, active)
                    muts = region_mutations(p)
                    notes = notifications(p)
                    cleared = False
                    for (i, kind) in muts:
                        e = p.st.trace[i]
                        if kind == 'replace':
                            v = e[3]
                            if isinstance(v, Obj) and p.st.seqs.get(v.oid) == ():
                                cleared = True
                            else:
                                ctx.report('C11.R1', where, tag + ' replaces regions',
                                           'the region list is replaced by something that is not an empty list')
                        else:
                            ctx.report('C11.R1', where, tag + ' mutates regions (%s)' % kind,
                                       'an event mutates the region list in place')
                    reset = any(e[0] == 'write' and e[1] == 'ExcludeRegionState' and e[2] == 'excluding' for e in p.st.trace)
                    if ev == 'PRINT_STARTED':
                        want = dict(active=True, cleared=False, reset=True)
                    elif ev in END_EVENTS:
                        want = dict(active=False, cleared=clear, reset=clear)
                    elif ev == 'FILE_SELECTED':
                        want = dict(active=active, cleared=True, reset=True)
                    elif ev == 'SETTINGS_UPDATED':
                        want = dict(active=active, cleared=False, reset=False)
                    else:
                        want = dict(active=active, cleared=False, reset=False)
                    got = dict(active=after, cleared=cleared, reset=reset)
                    if got != want:
                        ctx.report('C11.R1', where, tag, 'transition is %s, the property requires %s' % (got, want))
                    if ev not in ('PRINT_STARTED', 'FILE_SELECTED', 'SETTINGS_UPDATED') and ev not in END_EVENTS:
                        eff = effects(p)
                        if eff:
                            ctx.report('C11.R1', where, tag + ' has effects', 'an unrelated event changes state: %s' % eff[:4])
                    if cleared and len(notes) != 1:
                        ctx.report('C11.R1', where, tag + ' notification', 'regions cleared with %d notifications' % len(notes))
                ctx.sample({'event': ev, 'active': active, 'clear': clear, 'paths': len(paths)})


def gating_rule(ctx, I):
    restrict = {('fld', 'P', '_activePrintJob'): [False]}
    cases = []
    for g in gcodes_to_analyse(ctx.model):
        # every argument OctoPrint supplies is unknown: command type, sub code and the tag set may be None or anything else
        cases.append(('handleGcodeQueuing', [Opaque('comm'), SStr('PHASE'), SStr('CMD', nonempty=True),
                                             I.maybe(('null', 'arg:cmdType'), SStr('CMDTYPE')), Str(g),
                                             unknown_subcode(I),
                                             I.maybe(('null', 'arg:tags'), Opaque('TAGS'))]))
    cases.append(('handleAtCommandQueuing', [Opaque('comm'), SStr('PHASE'), SStr('ATCMD', nonempty=True), SStr('PARAMS'),
                                             I.maybe(('null', 'arg:tags'), Opaque('TAGS'))]))
    cases.append(('handleScriptHook', [Opaque('comm'), Str('gcode'), Str('afterPrintDone')]))
    cases.append(('handleScriptHook', [Opaque('comm'), SStr('TYPE'), SStr('NAME')]))
    for name, args in cases:
        paths = run_plugin_method(I, name, args, restrict=restrict)
        for p in paths:
            lits = [a.s for a in args if isinstance(a, Str)]
            tag = '%s(%s)' % (name, lits[-1] if lits else '...')
            ctx.instance('C11.R2', tag)
            eff = effects(p)
            if isinstance(p.ret, Raised) or p.ret is not NONE or eff:
                ctx.report('C11.R2', 'ExcludeRegionPlugin.%s' % name, tag,
                           'with no active print the hook returns %r with effects %s' % (p.ret, eff[:4]))


def writers_rule(ctx):
    for (q, val, line, mod, aug) in census.attr_stores(ctx.model, '_activePrintJob'):
        ctx.instance('C11.R3', q)
        if not census.only_reached_through(ctx.model, q, ('ExcludeRegionPlugin.__init__', 'ExcludeRegionPlugin.initialize',
                                                          'ExcludeRegionPlugin.on_event')):
            ctx.report('C11.R3', q, '_activePrintJob = %s' % (ast.unparse(val) if val is not None else '?'),
                       'the active-print flag is written outside the lifecycle functions', line=line)


def settings_refresh_rule(ctx, I, rule, field):
    """the plugin field that mirrors a stored setting is refreshed from that setting on every path of
    _handleSettingsUpdated - including the paths that end in an exception (a malformed @-command pattern, an unknown
    mode): OctoPrint only logs the exception, the plugin goes on with whatever the field holds"""
    paths = run_plugin_method(I, '_handleSettingsUpdated', [])
    if not paths:
        raise AnalysisError('anchor vanished: ExcludeRegionPlugin._handleSettingsUpdated')
    for p in paths:
        ok = False
        for e in p.st.trace:
            if e[0] != 'write' or e[4] != 'P' or e[2] != field:
                continue
            ok = False      # the last write counts
            for v in live_alts(p.st, e[3]):
                tag = getattr(v, 'tag', '')
                if isinstance(v, Opaque) and '_settings.get' in tag:
                    args = [a for o, seq in p.st.seqs.items() if ("'%s'" % o) in tag for a in seq]
                    if any(isinstance(a, Str) and a.s == field for a in args):
                        ok = True
        outcome = 'raises %s' % p.ret.exc if isinstance(p.ret, Raised) else 'returns'
        ctx.instance(rule, (field, outcome))
        if not ok:
            ctx.report(rule, 'ExcludeRegionPlugin._handleSettingsUpdated', '%s not refreshed on a path that %s' % (field, outcome),
                       'a settings update can leave %s at its old value (%s): the plugin then acts on a setting the user has '
                       'changed' % (field, 'the handler raises before the field is read; OctoPrint only logs the exception'
                                    if isinstance(p.ret, Raised) else 'the field is not assigned from the stored setting'))
            break


def run(ctx, tier):
    declare(ctx)
    I = make_interp(ctx.model, unroll=2 if tier == 'thorough' else 1)
    event_rule(ctx, I)
    gating_rule(ctx, I)
    writers_rule(ctx)
    ctx.rule('C11.R4', 'clearRegionsAfterPrintFinishes is refreshed from the stored setting on every path of the settings '
                       'handler, exceptional ones included', floor=2)
    settings_refresh_rule(ctx, make_interp(ctx.model), 'C11.R4', 'clearRegionsAfterPrintFinishes')
    ctx.assume('stored settings are valid (the configuration classes reject anything else)')
    ctx.assume('distinct Events.* names are distinct values; OctoPrint delivers events/hook calls as documented')
