"""Regex automata (component H): re._parser tree -> NFA over a class alphabet -> DFA; language queries.

Only the *language* of a pattern is modelled (laziness and group structure do not change it).  Every character
class of a pattern must be a union of the alphabet classes below, otherwise the analysis aborts.
"""
try:
    import re._parser as sp
    import re._constants as sc
except ImportError:  # pragma: no cover
    import sre_parse as sp
    import sre_constants as sc

from .model import AnalysisError

END = '$'      # end-of-string marker (not a character)
# alphabet classes with their probe characters
PROBES = {
    'G': 'GgMm', 'T': 'Tt', 'N': 'Nn', 'E': 'Ee',
    'A': 'ABCDFHIJKLOPQRSUVWXYZabcdfhijklopqrsuvwxyz',
    '5': '0123456789', '.': '.', '+': '+', '-': '-', ' ': ' ', '*': '*', ';': ';', '\\': '\\',
    '\r': '\r', '\n': '\n', '\t': '\t\x0b\x0c', '#': '#@!_=()/:"%&\'',
}
SIGMA = list(PROBES)
_PREPARED = set()


def _class_tests(tree, out):
    """every character test (literal / class) occurring in a parse tree, as membership predicates"""
    for op, av in tree:
        if op == sc.LITERAL:
            out.append(_matches_factory([(sc.LITERAL, av)]))
        elif op == sc.NOT_LITERAL:
            out.append(_matches_factory([(sc.LITERAL, av)]))
        elif op == sc.IN:
            out.append(_matches_factory(av))
        elif op == sc.BRANCH:
            for alt in av[1]:
                _class_tests(alt, out)
        elif op == sc.SUBPATTERN:
            _class_tests(av[-1], out)
        elif op in (sc.MAX_REPEAT, sc.MIN_REPEAT):
            _class_tests(av[2], out)
        elif op in (sc.ASSERT, sc.ASSERT_NOT):
            _class_tests(av[1], out)


def refine_alphabet(patterns):
    """split the alphabet classes so that every character test of the given patterns is a union of classes: two characters
    stay in one class only when no literal or class of any pattern tells them apart (done once, before any automaton is
    built; class names are the first character of the class)"""
    tests = []
    for pat in patterns:
        try:
            _class_tests(sp.parse(pat), tests)
        except Exception:  # noqa  (a pattern that does not compile is reported by the rule that uses it)
            continue
    changed = False
    for name in list(PROBES):
        groups = {}
        for ch in PROBES[name]:
            sig = tuple(t(ch) for t in tests)
            groups.setdefault(sig, []).append(ch)
        if len(groups) <= 1:
            continue
        changed = True
        parts = sorted(groups.values(), key=lambda g: (name not in g, g))
        del PROBES[name]
        for g in parts:
            key = name if name in g and name not in PROBES else g[0]
            PROBES[key] = ''.join(g)
    if changed:
        SIGMA[:] = list(PROBES)
    return changed


def prepare(model):
    """refine the alphabet for every foldable module-level pattern of the package (idempotent per model)"""
    import ast as _ast
    if id(model) in _PREPARED:
        return
    _PREPARED.add(id(model))
    pats = []
    for (mod, name), node in model.consts.items():
        try:
            if isinstance(node, _ast.Call) and node.args and getattr(node.func, 'attr', '') == 'compile':
                pats.append(model.fold(mod, node.args[0]))
            elif name.startswith('PAT_') or name.endswith('_REGEX') or name.endswith('_PATTERN'):
                v = model.fold(mod, node)
                if isinstance(v, str):
                    pats.append(v)
        except Exception:  # noqa
            continue
    refine_alphabet([p for p in pats if isinstance(p, str)])


class NFA(object):
    def __init__(self):
        self.n = 0
        self.eps = {}
        self.tr = {}

    def new(self):
        self.n += 1
        return self.n - 1

    def e(self, a, b):
        self.eps.setdefault(a, set()).add(b)

    def t(self, a, syms, b):
        for s in syms:
            self.tr.setdefault((a, s), set()).add(b)


def _matches_factory(items):
    neg = False
    pos = []
    for op, av in items:
        if op == sc.NEGATE:
            neg = True
        elif op == sc.LITERAL:
            pos.append(('lit', chr(av)))
        elif op == sc.RANGE:
            pos.append(('range', av))
        elif op == sc.CATEGORY:
            pos.append(('cat', av))
        else:
            raise AnalysisError('unsupported regex class item %r' % (op,))

    def matches(ch):
        r = False
        for k, v in pos:
            if k == 'lit' and v == ch:
                r = True
            elif k == 'range' and v[0] <= ord(ch) <= v[1]:
                r = True
            elif k == 'cat':
                if v == sc.CATEGORY_DIGIT and ch.isdigit():
                    r = True
                elif v == sc.CATEGORY_NOT_DIGIT and not ch.isdigit():
                    r = True
                elif v == sc.CATEGORY_SPACE and ch.isspace():
                    r = True
                elif v == sc.CATEGORY_NOT_SPACE and not ch.isspace():
                    r = True
                elif v == sc.CATEGORY_WORD and (ch.isalnum() or ch == '_'):
                    r = True
                elif v == sc.CATEGORY_NOT_WORD and not (ch.isalnum() or ch == '_'):
                    r = True
        return r != neg
    return matches


def in_set(items):
    matches = _matches_factory(items)
    out = set()
    for c in SIGMA:
        rs = set(matches(p) for p in PROBES[c])
        if len(rs) != 1:
            raise AnalysisError('regex character class %r splits the alphabet class %r' % (items, c))
        if rs.pop():
            out.add(c)
    return out


def build(nfa, node, s):
    cur = s
    for op, av in node:
        if op == sc.LITERAL:
            n = nfa.new()
            nfa.t(cur, in_set([(sc.LITERAL, av)]), n)
            cur = n
        elif op == sc.NOT_LITERAL:
            n = nfa.new()
            nfa.t(cur, in_set([(sc.NEGATE, None), (sc.LITERAL, av)]), n)
            cur = n
        elif op == sc.IN:
            n = nfa.new()
            nfa.t(cur, in_set(av), n)
            cur = n
        elif op == sc.ANY:
            n = nfa.new()
            nfa.t(cur, [c for c in SIGMA if c != '\n'], n)
            cur = n
        elif op == sc.SUBPATTERN:
            cur = build(nfa, av[3], cur)
        elif op == sc.BRANCH:
            end = nfa.new()
            for alt in av[1]:
                st = nfa.new()
                nfa.e(cur, st)
                nfa.e(build(nfa, alt, st), end)
            cur = end
        elif op in (sc.MAX_REPEAT, sc.MIN_REPEAT) or str(op) == 'POSSESSIVE_REPEAT':
            lo, hi, sub = av
            for _ in range(lo):
                cur = build(nfa, sub, cur)
            if hi == sc.MAXREPEAT:
                loop = nfa.new()
                nfa.e(cur, loop)
                e2 = build(nfa, sub, loop)
                nfa.e(e2, loop)
                cur = loop
            else:
                end = nfa.new()
                nfa.e(cur, end)
                for _ in range(hi - lo):
                    cur = build(nfa, sub, cur)
                    nfa.e(cur, end)
                cur = end
        elif op == sc.AT:
            if av in (sc.AT_END_STRING, sc.AT_END):
                n = nfa.new()
                nfa.t(cur, [END], n)
                cur = n
            elif av in (sc.AT_BEGINNING_STRING, sc.AT_BEGINNING):
                pass    # anchored matching (re.match) is what the code uses
            else:
                raise AnalysisError('unsupported regex anchor %r' % (av,))
        else:
            raise AnalysisError('unsupported regex construct %r' % (op,))
    return cur


def parse(pattern):
    try:
        return sp.parse(pattern)
    except Exception as ex:  # noqa
        raise AnalysisError('regular expression does not compile: %s' % ex)


def compile_nfa(pattern):
    nfa = NFA()
    s = nfa.new()
    f = build(nfa, parse(pattern), s)
    return nfa, s, f


def closure(nfa, S):
    S = set(S)
    stack = list(S)
    while stack:
        x = stack.pop()
        for y in nfa.eps.get(x, ()):
            if y not in S:
                S.add(y)
                stack.append(y)
    return frozenset(S)


def dfa(nfa, s, f, alphabet):
    start = closure(nfa, [s])
    states = {start: 0}
    trans = {}
    work = [start]
    acc = set()
    while work:
        S = work.pop()
        if f in S:
            acc.add(S)
        for a in alphabet:
            T = set()
            for x in S:
                T |= nfa.tr.get((x, a), set())
            T = closure(nfa, T)
            if T not in states:
                states[T] = len(states)
                work.append(T)
            trans[(S, a)] = T
    return start, states, trans, acc


def lang_dfa(pattern, alphabet=None):
    n, s, f = compile_nfa(pattern)
    return dfa(n, s, f, alphabet or SIGMA)


def included(p, q, alphabet=None):
    """L(p) subset of L(q) (full-match languages over the class alphabet); returns (bool, witness classes)"""
    alphabet = alphabet or SIGMA
    sa, _, ta, aa = lang_dfa(p, alphabet)
    sb, _, tb, ab = lang_dfa(q, alphabet)
    seen = {(sa, sb): ()}
    work = [(sa, sb)]
    while work:
        A, B = work.pop()
        if A in aa and B not in ab:
            return False, seen[(A, B)]
        for a in alphabet:
            n = (ta[(A, a)], tb[(B, a)])
            if n not in seen:
                seen[n] = seen[(A, B)] + (a,)
                work.append(n)
    return True, ()


def prefix_total(pattern, need_nonempty_input=False):
    """every input w (w in SIGMA*, followed by the end marker) has a prefix in L(pattern).
    returns (ok, counterexample class string, number of DFA states)"""
    nfa, s, f = compile_nfa(pattern)
    nfa.t(f, SIGMA + [END], f)          # accepting is absorbing: some prefix matched
    start, states, trans, acc = dfa(nfa, s, f, SIGMA + [END])
    seen = {start: ()}
    work = [start]
    while work:
        S = work.pop()
        if S not in acc and not (need_nonempty_input and seen[S] == ()):
            T = trans[(S, END)]
            if T not in acc:
                return False, seen[S], len(states)
        for a in SIGMA:
            T = trans[(S, a)]
            if T not in seen:
                seen[T] = seen[S] + (a,)
                work.append(T)
    return True, (), len(states)


def matches_empty_without_end(pattern):
    nfa, s, f = compile_nfa(pattern)
    return f in closure(nfa, [s])


def show(classes):
    rep = {'A': 'X', 'a': 'x', '\r': '\\r', '\n': '\\n', '\t': '\\t'}
    return ''.join(rep.get(c, PROBES.get(c, c)[0] if c not in ('\r', '\n', '\t') else c) for c in classes)


# ---------------------------------------------------------------- structure: capture groups tiling the match
def top_level_items(pattern):
    """[(kind, group number | None, consumes)] for the top-level concatenation of the pattern"""
    out = []
    for op, av in parse(pattern):
        if op == sc.SUBPATTERN:
            out.append(('group', av[0], True))
        elif op == sc.AT:
            out.append(('anchor', None, False))
        elif op in (sc.MAX_REPEAT, sc.MIN_REPEAT):
            lo, hi, sub = av
            items = list(sub)
            if len(items) == 1 and items[0][0] == sc.SUBPATTERN:
                out.append(('group?', items[0][1][0], True))
            else:
                out.append(('ungrouped', None, True))
        else:
            out.append(('ungrouped', None, True))
    return out


def group_tail(pattern, outer, inner):
    """True when, inside capture group `outer`, capture group `inner` preceded by the literal '*' is the last
    consuming element of the alternative it occurs in (so that outer's text ends with '*' + inner)"""
    def find(node, g):
        for op, av in node:
            if op == sc.SUBPATTERN:
                if av[0] == g:
                    return av[3]
                r = find(av[3], g)
                if r is not None:
                    return r
            elif op == sc.BRANCH:
                for alt in av[1]:
                    r = find(alt, g)
                    if r is not None:
                        return r
            elif op in (sc.MAX_REPEAT, sc.MIN_REPEAT):
                r = find(av[2], g)
                if r is not None:
                    return r
        return None

    def contains(node, g):
        return find(node, g) is not None or any(op == sc.SUBPATTERN and av[0] == g for op, av in node)

    body = find(parse(pattern), outer)
    if body is None:
        return False

    def tail_ok(seq):
        seq = list(seq)
        if not seq:
            return False
        op, av = seq[-1]
        if op == sc.SUBPATTERN and av[0] is None:
            return tail_ok(av[3])
        if op == sc.BRANCH:
            alts = [a for a in av[1] if contains(a, inner)]
            return len(alts) == 1 and tail_ok(alts[0])
        if op in (sc.MAX_REPEAT, sc.MIN_REPEAT) and av[0] == 0 and av[1] == 1:
            inner_seq = list(av[2])
            if len(inner_seq) == 1 and inner_seq[0][0] == sc.SUBPATTERN and inner_seq[0][1][0] is None:
                inner_seq = list(inner_seq[0][1][3])
            if len(inner_seq) == 2 and inner_seq[0] == (sc.LITERAL, ord('*')) and inner_seq[1][0] == sc.SUBPATTERN \
                    and inner_seq[1][1][0] == inner:
                return True
        return False
    return tail_ok(body)


def group_guards(pattern):
    """{group number: guard} where guard is the tuple of optional / alternative choices enclosing the group.
    Groups with the same guard participate in a match together; the empty guard means 'always participates'."""
    out = {}

    def walk(node, path):
        for op, av in node:
            if op == sc.SUBPATTERN:
                if av[0] is not None:
                    out[av[0]] = tuple(path)
                walk(av[3], path)
            elif op == sc.BRANCH:
                for i, alt in enumerate(av[1]):
                    walk(alt, path + [('alt', id(av), i)])
            elif op in (sc.MAX_REPEAT, sc.MIN_REPEAT):
                lo, hi, sub = av
                walk(sub, path + ([('opt', id(sub))] if lo == 0 else []))
    walk(parse(pattern), [])
    # renumber guards canonically
    canon = {}
    res = {}
    for g in sorted(out):
        p = out[g]
        if p not in canon:
            canon[p] = len(canon)
        res[g] = () if not p else ('guard', canon[p])
    # guards nested inside other guards imply them; keep a parent map for pruning
    parents = {}
    for g, p in out.items():
        for h, q in out.items():
            if q and len(q) < len(p) and p[:len(q)] == q:
                parents.setdefault(res[g], set()).add(res[h])
    return res, parents


def group_nonempty(pattern):
    """{group number: True when the group cannot match the empty string}"""
    out = {}

    def walk(node):
        for op, av in node:
            if op == sc.SUBPATTERN:
                if av[0] is not None:
                    out[av[0]] = av[3].getwidth()[0] > 0
                walk(av[3])
            elif op == sc.BRANCH:
                for alt in av[1]:
                    walk(alt)
            elif op in (sc.MAX_REPEAT, sc.MIN_REPEAT):
                walk(av[2])
    walk(parse(pattern))
    return out
