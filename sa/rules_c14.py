"""C14 - @-commands switch exclusion off and on correctly."""
import ast

from .handlers import run_path_rules
from .entries import make_interp, new_handlers_state, Path
from .pathfacts import Facts, live_alts, classify, S_OID
from .values import NONE, Num, Str, SStr, Cat, Obj, TupleV, Opaque, Star
from .absint import Raised
from .model import AnalysisError

PROP = 'C14'
STREAMING = ('truthy', ('opaque', 'comm.isStreaming()'))


def declare(c):
    c.rule('C14.R0', 'action mapping: the enable action only sets the enabled flag, the disable action clears it '
                     '(closing an open episode), any other action changes nothing', floor=10)
    c.rule('C14.R1', 'while disabled no region test succeeds and no episode opens', floor=50)
    c.rule('C14.R2', 'a disable inside an episode sends exactly the exit sequence, in order, through sendCommand; '
                     'outside an episode nothing is sent', floor=2)
    c.rule('C14.R3', 'the tool position is tracked identically while disabled', floor=50)
    c.rule('C14.R4', 'streaming to SD or no matching action: returns False without any effect', floor=2)
    c.rule('C14.R6', 'retraction / E-register typestate machine with the @-command actions in the environment: a disable '
                     '(inside or outside an episode) and a later enable leave no obligation behind that the same program '
                     'without @-commands would have honoured (owed recovery, E re-synchronisation)', floor=20)
    c.rule('C14.R7', 'with exclusion enabled every move (X/Y/Z word, arcs) is decided by a fresh region test of the tracked '
                     'position, never from remembered state: after re-enabling the first move already sees the true position', floor=100)
    c.rule('C14.R5', 'the actions accepted by the configuration are exactly the actions dispatched', floor=1)


def action_consts(model):
    out = {}
    for (mod, name), node in model.consts.items():
        if mod == 'AtCommandAction' and isinstance(node, ast.Constant) and isinstance(node.value, str) and name.isupper():
            out[name] = node.value
    return out


def at_rules(ctx, I, rmap=None):
    rmap = rmap or {}

    def R(r):
        return rmap.get(r, r)
    consts = action_consts(ctx.model)
    if 'ENABLE_EXCLUSION' not in consts or 'DISABLE_EXCLUSION' not in consts:
        raise AnalysisError('anchor vanished: ENABLE_EXCLUSION / DISABLE_EXCLUSION')
    EN, DIS = consts['ENABLE_EXCLUSION'], consts['DISABLE_EXCLUSION']
    st, H, S = new_handlers_state(I)
    res = I.run_method(st, 'GcodeHandlers', 'handleAtCommand', H,
                       [Opaque('comm'), SStr('ATCMD', nonempty=True), SStr('PARAMS')])
    for (s, v) in res:
        p = Path('handleAtCommand', s, v, {})
        f = Facts(p, I)
        where = 'GcodeHandlers.handleAtCommand'
        streaming = p.dec(STREAMING)
        acts = []           # actions of the matching entries, in the order the handler met them
        for k, facts in s.dom.items():
            if k[0] == 'valueof' and 'action' in repr(k[1]):
                name = None
                for fct in facts:
                    if isinstance(fct[1], tuple) and fct[1][0] == 'str':
                        DISPATCHED.add(fct[1][1])
                    if fct[0] == 'is':
                        name = fct[1][1]
                acts.append(name)
        acted = bool(acts)
        # whether an entry applies is decided by the command name and by whether its pattern matched the parameters - not by
        # properties of the matched text (an empty match is a match)
        import re as _re
        for k in s.dom:
            r = repr(k)
            if 'parameterPattern.match(' in r and _re.search(r"parameterPattern\.match\([^()]*\)\.", r):
                ctx.instance(R('C14.R0'), ('match-derived', r[:80]))
                ctx.report(R('C14.R0'), 'AtCommandAction.matches', 'an entry applies depending on %s' % _re.search(r"atEntries\[\d+\]\.parameterPattern\.match\([^()]*\)\.[A-Za-z_]+(\([^()]*\))?", r).group(0),
                           'the decision whether a configured action matches is taken on a property of the match (its text, a '
                           'group, its span) instead of on the match itself: a pattern that matches the empty string - a '
                           'parameterless custom @-command, an optional keyword - never fires')
                break
        writes = [(e[2], live_alts(s, e[3])) for e in s.trace if e[0] == 'write' and e[1] == 'ExcludeRegionState'
                  and e[2] not in ('numCommands', 'numExcludedCommands')]
        sends = [e[2][0] if e[2] else None for e in s.trace if e[0] == 'ext' and e[1].endswith('sendCommand')]
        other = [e for e in s.trace if (e[0] == 'ext' and not e[1].endswith('sendCommand') and
                                        not e[1].endswith('isStreaming') and '.match' not in e[1])
                 or e[0].startswith('seq-') and ('fresh', str(e[1])) not in s.flags and '@' not in str(e[1])]
        tag = 'streaming=%s actions=%s enabled=%s excluding=%s' % (streaming, '+'.join(a or 'other' for a in acts) if acted else 'no-match',
                                                                   f.pre_enabled, f.pre_excluding)
        if isinstance(v, Raised):
            ctx.instance(R('C14.R0'), tag)
            ctx.report(R('C14.R0'), where, tag + ' raises', repr(v))
            continue
        if streaming is not False or not acted:
            ctx.instance(R('C14.R4'), tag)
            if streaming is None:
                ctx.report(R('C14.R4'), where, 'streaming not consulted', 'a path never asks whether the file is streamed to SD')
            if v is not False or writes or sends:
                ctx.report(R('C14.R4'), where, tag, 'returns %r with writes %s and %d sends; must be False without effect'
                           % (v, [w[0] for w in writes], len(sends)))
            continue
        ctx.instance(R('C14.R0'), tag)
        wnames = [w[0] for w in writes]
        # reference: the matching actions applied one after the other to (enabled, excluding)
        en, exc = f.pre_enabled, f.pre_excluding
        want_flag_writes = []
        exit_expected = False
        unconsulted = False
        for a in acts:
            if a == EN:
                if en is not True:
                    want_flag_writes.append([True])
                en = True
            elif a == DIS:
                if en is not False:
                    want_flag_writes.append([False])
                    if exc is True:
                        exit_expected = True
                        exc = False
                    elif exc is None:
                        unconsulted = True
                en = False
        got_flag_writes = [w[1] for w in writes if w[0] == '_exclusionEnabled']
        if got_flag_writes != want_flag_writes:
            ctx.report(R('C14.R0'), where, 'flag writes %s for %s' % (got_flag_writes, tag),
                       'applying the matching actions in order must write the enabled flag %s (enable sets it, disable clears '
                       'it, anything else leaves it alone)' % want_flag_writes)
        if DIS in acts:
            ctx.instance(R('C14.R2'), tag)
        if unconsulted:
            ctx.report(R('C14.R2'), 'ExcludeRegionState.disableExclusion', 'disable does not look for an open episode',
                       'a disable action is carried out without consulting whether an episode is open: an open episode '
                       'would stay open although exclusion is now off')
        if exit_expected:
            if f.post_excluding() is not False:
                ctx.report(R('C14.R2'), where, 'disable leaves the episode open', tag)
            # the list built by exitExcludedRegion
            lists = [oid for oid, sq in s.seqs.items() if any(isinstance(x, Cat) and x.skeleton() == 'G92 E{}' for x in sq)]
            if not lists:
                ctx.report(R('C14.R2'), where, 'disable without exit sequence', 'an open episode is closed without '
                           're-synchronisation commands: ' + tag)
            else:
                # the complete sequence: with list concatenation several partial lists exist, the result is the longest (and latest)
                best = max(range(len(lists)), key=lambda ix: (len(s.seqs[lists[ix]]), ix))
                elems = s.seqs[lists[best]]
                want = []
                for el in elems:
                    if isinstance(el, Star):
                        want.append('star:' + el.tag)
                    else:
                        want.append(classify(live_alts(s, el)[0]))
                got = []
                for a in sends:
                    if isinstance(a, Opaque) and '[' in a.tag:
                        got.append('star:' + a.tag.split('[')[0])
                    else:
                        got.append(classify(a))
                # stars may expand to zero or more sends
                gi = 0
                ok = True
                for w in want:
                    if w.startswith('star:'):
                        while gi < len(got) and got[gi] == w:
                            gi += 1
                    else:
                        if gi < len(got) and got[gi] == w:
                            gi += 1
                        else:
                            ok = False
                if gi != len(got) or not ok:
                    ctx.report(R('C14.R2'), where, 'sent %s for %s' % (got, '+'.join(a or 'other' for a in acts)),
                               'the commands sent to the printer differ from the exit sequence %s (each exactly once, in '
                               'order, whatever other actions match the same @-command)' % want)
                ctx.sample({'rule': 'C14.R2', 'actions': acts, 'sent': got})
        else:
            extra = [w for w in wnames if w != '_exclusionEnabled']
            if sends or extra:
                ctx.report(R('C14.R2') if DIS in acts else 'C14.R0', where,
                           '%s outside an episode: %d sends, writes %s' % ('+'.join(a or 'other' for a in acts), len(sends), extra),
                           'no episode is open (or exclusion was already off), so the actions may only change the enabled flag: ' + tag)
        if other:
            ctx.report(R('C14.R0'), where, tag + ' side effects', 'unexpected effects %s' % [e[:2] for e in other][:3])


DISPATCHED = set()


def consts_rule(ctx):
    m = ctx.model
    init = m.method('AtCommandAction', '__init__')
    accepted = set()
    for n in ast.walk(init):
        if isinstance(n, ast.Compare) and isinstance(n.ops[0], ast.In) and isinstance(n.left, ast.Name) and n.left.id == 'action':
            for elt in getattr(n.comparators[0], 'elts', []):
                try:
                    accepted.add(m.fold('AtCommandAction', elt))
                except KeyError:
                    accepted.add(ast.unparse(elt))
    # the constants the action of a matching entry is compared with, on any abstract path of handleAtCommand
    dispatched = set(DISPATCHED)
    ctx.instance('C14.R5', (tuple(sorted(accepted)), tuple(sorted(dispatched))))
    if accepted != dispatched or not accepted:
        ctx.report('C14.R5', 'GcodeHandlers.handleAtCommand', 'accepted %s dispatched %s' % (sorted(accepted), sorted(dispatched)),
                   'configuration accepts actions that are not dispatched (or vice versa)')


def path_rules(col, gcode, paths, I):
    declare(col)
    for p in paths:
        f = Facts(p, I)
        if not f.raised and f.pre_enabled is not False:
            moved = gcode in ('G2', 'G3') and ('ExcludeRegionState', 'processLinearMoves') in f.calls
            moved = moved or f.valued('X') or f.valued('Y') or f.valued('Z')
            if moved:
                col.instance('C14.R7', (gcode, f.describe(), tuple(f.decisions()[-4:])))
                if not f.region_tested:
                    col.report('C14.R7', 'ExcludeRegionState.isAnyPointExcluded', '%s decided without a region test while enabled' % gcode,
                               'with exclusion enabled a move (here: %s) is decided from remembered state instead of testing the '
                               'tracked position: directly after an enable @-command that state is stale, the tool may already be '
                               'inside a region' % f.describe(), detail={'entry': p.entry, 'decisions': f.decisions()})
        if f.raised or f.pre_enabled is not False:
            continue
        sig = (gcode, f.describe(), tuple(f.decisions()[-5:]))
        col.instance('C14.R1', sig)
        if f.any_excluded or (f.pre_excluding is not True and f.post_excluding() is True) or \
                ('ExcludeRegionState', 'enterExcludedRegion') in f.calls:
            col.report('C14.R1', 'ExcludeRegionState.processLinearMoves', '%s excluded while disabled' % gcode,
                       'a move is treated as excluded although exclusion is disabled',
                       detail={'entry': p.entry, 'decisions': f.decisions()})
        from .pathfacts import exact_tracking
        for (fn, construct, msg) in exact_tracking(f, gcode):
            col.report('C14.R3', fn, construct + ' while disabled', msg, detail={'entry': p.entry, 'decisions': f.decisions()})
        if ('ExcludeRegionState', 'processLinearMoves') not in f.calls and gcode not in ('G0', 'G1'):
            continue
        col.instance('C14.R3', sig)
        for axis, letter in (('X_AXIS', 'X'), ('Y_AXIS', 'Y'), ('Z_AXIS', 'Z')):
            aoid = '%s.position.%s' % (S_OID, axis)
            assume = {('fld', aoid, 'absoluteMode'): frozenset([True])} if gcode in ('G2', 'G3') else None
            for v in f.final(aoid, 'current', assume):
                if not isinstance(v, Num):
                    continue
                syms = v.p.symbols()
                deps = set(syms)
                for s2 in syms:
                    deps |= I.symdeps(s2)
                if gcode in ('G0', 'G1') and f.valued(letter) and ('p:%s' % letter) not in deps:
                    col.report('C14.R3', 'ExcludeRegionState.isAnyPointExcluded', '%s %s word not tracked while disabled' % (gcode, letter),
                               'while exclusion is disabled the tracked position does not follow the %s word: decisions '
                               'after re-enabling are based on a stale position' % letter,
                               detail={'entry': p.entry, 'decisions': f.decisions()})
                if any('planArc' in s2 and '.ret[' in s2 for s2 in syms):
                    col.report('C14.R3', 'ExcludeRegionState.isAnyPointExcluded', '%s %s left mid-arc while disabled' % (gcode, axis),
                               'tracked position ends at an intermediate arc sample')


def machine_rule(ctx, tier):
    """violations of the C04/C05 typestate machine that are only reachable through an @-command"""
    from .retraction import explore
    viol, stats = explore(ctx, ctx.model, tier)
    ctx.instance('C14.R6', 'states', n=stats['states'])
    ctx.instance('C14.R6', 'transitions', n=stats['transitions'])
    for i in range(min(400, stats['transitions'])):
        ctx.distinct.add(('C14.R6', i))

    def key(v):
        return (v['kind'], v['func'], v['construct'])
    plain = set(key(v) for v in viol if not any(t.startswith('at-') for t in v['trace']))
    seen = set()
    for v in viol:
        k = key(v)
        if k in plain or k in seen:
            continue
        seen.add(k)
        ctx.report('C14.R6', v['func'], v['construct'],
                   '%s; only reachable through an @-command, shortest program: %s%s'
                   % (v['text'], ' , '.join(v['trace']), ('; step: ' + v['transition']) if v.get('transition') else ''),
                   detail={'trace': list(v['trace']), 'transition': v.get('transition')})


def run(ctx, tier):
    declare(ctx)
    try:
        machine_rule(ctx, tier)
    except AnalysisError as ex:
        # the other rules still run: a violation found there is reported, the unfinished machine fails the run only otherwise
        ctx.deferred_errors.append(str(ex))
    I = make_interp(ctx.model, unroll=3 if tier == 'thorough' else 2)     # two / three matching entries per @-command
    at_rules(ctx, I)
    consts_rule(ctx)
    # "the same re-synchronisation obligations as leaving a region": what exitExcludedRegion builds for the disable context
    # is held to the composition and value rules of C03 (exactly one G92 E and one X/Y move, Z ordering, logical values)
    from . import rules_c03
    from .pathfacts import S_OID as _S
    ctx.rule('C03.R1', 'C03: exit composition - pending, exit script, G92 E, then Z before XY iff rising / after iff falling / absent iff equal', floor=6)
    ctx.rule('C03.R4', 'C03: every word of the exit commands is the logical value of the tracked native position', floor=6)
    rules_c03.exit_rules(ctx, make_interp(ctx.model), {('fld', _S, 'excluding'): [True]}, 'exitExcludedRegion (disable @-command)')
    run_path_rules(ctx, __name__, 'path_rules', ['G0', 'G1', 'G2', 'G3'], unroll=1)
    from .rules_c20 import line_premise
    line_premise(ctx)
    from .rules_c19 import tokeniser_premise
    tokeniser_premise(ctx)
    from .rules_c08 import frame_premise, state_code_premise
    frame_premise(ctx)
    state_code_premise(ctx)
    ctx.assume('the exit sequence itself is decided by C03; pattern matching of parameters is AtCommandAction.matches '
               '(regular expression supplied by the user)')
