"""C08 - exclusion decisions are invariant under re-encoding of the same tool path (unit / mode / G92 algebra)."""
import ast

from .handlers import run_path_rules
from .entries import make_interp, new_handlers_state, run_gcode, axis_logical
from .state import State
from .pathfacts import Facts, live_alts, S_OID
from .values import NONE, Num, Str, SStr, Cat, Obj, TupleV, Opaque, Choice, vkey
from .absint import Raised
from .model import AnalysisError
from .poly import Poly
from . import census

PROP = 'C08'
AX = 'AxisPosition'
FIELDS = ('current', 'offset', 'homeOffset', 'unitMultiplier', 'absoluteMode')


def declare(c):
    c.rule('C08.R1', 'region tests receive native coordinates: logical*unit+offset+homeOffset in absolute mode, '
                     'current+logical*unit in relative mode', floor=2)
    c.rule('C08.R2', 'conversion laws as polynomial identities: native->logical->native and logical->native->logical '
                     'are the identity (absolute and relative); after G92 v the logical position is v; homing zeroes '
                     'position and offset', floor=6)
    c.rule('C08.R3', 'sibling agreement: G20/G21 set the same factor on X, Y, Z, E and the feed rate; G90/G91 set X, Y, Z '
                     '(and E iff the setting says so)', floor=6)
    c.rule('C08.R4', 'axis fields are written only inside AxisPosition (plus the reviewed exceptions)', floor=5)
    c.rule('C08.R6', 'every decision taken on a handler path is invariant under the unit re-encoding: its polynomial is '
                     'homogeneous when file-unit quantities scale by 1/t and unit factors by t (no file-unit length is '
                     'compared with an absolute constant)', floor=100)
    c.rule('C08.R7', 'after a G0/G1 the tracked native position is logical*unit+offset+homeOffset (absolute) or '
                     'current+logical*unit (relative) for every axis named, whatever the region tests answered; the same '
                     'for a list of points handed to isAnyPointExcluded', floor=20)
    c.rule('C08.R8', 'frame conditions of the AxisPosition mutators: each changes only its own fields (homing: position and G92 '
                     'offset; G90/G91: the mode; G20/G21: the unit factor; G92: the offset; M206: home offset and position; a '
                     'move: the position) - units and positioning mode survive homing, offsets survive a change of units', floor=6)
    c.rule('C08.R9', 'retraction bookkeeping is unit-proof: the recorded length is native (mm) and a generated G92 E / G1 E pair '
                     'renders native positions in the file units in force when it is generated', floor=2)
    c.rule('C08.R5', 'the arc handlers hand processLinearMoves coordinates that are valid in the current positioning mode', floor=2)


def axis(st, I, oid='A', absolute=None):
    st.cls[oid] = AX
    for a in ('current', 'offset', 'homeOffset'):
        st.heap[(oid, a)] = I.symbol('%s.%s' % (oid, a))
    st.heap[(oid, 'unitMultiplier')] = I.symbol('%s.unitMultiplier' % oid, frozenset([1]))
    st.heap[(oid, 'absoluteMode')] = I.atom(('fld', oid, 'absoluteMode')) if absolute is None else absolute
    return Obj(oid)


def single(I, st, res, what):
    out = []
    for (s, v) in res:
        if isinstance(v, Raised):
            raise AnalysisError('%s raises %r' % (what, v))
        for x in live_alts(s, v):
            out.append((s, x))
    return out


def laws(ctx, I):
    S = Poly.sym
    for absolute in (True, False):
        mode = 'absolute' if absolute else 'relative'
        # L1: native -> logical -> native
        st = State()
        A = axis(st, I, 'A', absolute)
        n = I.symbol('nativeValue')
        for (s, lv) in single(I, st, I.run_method(st, AX, 'nativeToLogical', A, [n]), 'nativeToLogical'):
            for (s2, back) in single(I, s, I.run_method(s, AX, 'logicalToNative', A, [lv]), 'logicalToNative'):
                ctx.instance('C08.R2', ('L1', mode))
                if not (isinstance(back, Num) and back.p == n.p):
                    ctx.report('C08.R2', 'AxisPosition.nativeToLogical', 'L1 %s: logicalToNative(nativeToLogical(x)) = %r' % (mode, getattr(back, 'p', back)),
                               'converting a native coordinate to file units and back does not give the coordinate '
                               '(%s mode): generated commands would not put the printer where the filter thinks it is' % mode)
        # L3: logical -> native -> logical
        st = State()
        A = axis(st, I, 'A', absolute)
        l = I.symbol('logicalValue')
        for (s, nv) in single(I, st, I.run_method(st, AX, 'logicalToNative', A, [l]), 'logicalToNative'):
            for (s2, back) in single(I, s, I.run_method(s, AX, 'nativeToLogical', A, [nv]), 'nativeToLogical'):
                ctx.instance('C08.R2', ('L3', mode))
                if not (isinstance(back, Num) and back.p == l.p):
                    ctx.report('C08.R2', 'AxisPosition.logicalToNative', 'L3 %s: nativeToLogical(logicalToNative(v)) = %r' % (mode, getattr(back, 'p', back)),
                               'converting a file coordinate to native and back does not give the coordinate (%s mode)' % mode)
    # the current logical position (no argument) is the absolute one
    st = State()
    A = axis(st, I, 'A', None)
    for (s, lv) in single(I, st, I.run_method(st, AX, 'nativeToLogical', A, []), 'nativeToLogical()'):
        ctx.instance('C08.R2', 'L1-current')
        want = (S('A.current') - S('A.offset') - S('A.homeOffset')).div(S('A.unitMultiplier'))
        if not (isinstance(lv, Num) and lv.p == want):
            ctx.report('C08.R2', 'AxisPosition.nativeToLogical', 'current logical position = %r' % (getattr(lv, 'p', lv),),
                       'the logical position is not (current - offset - homeOffset) / unit')
    # absolute logicalToNative is the firmware map
    st = State()
    A = axis(st, I, 'A', True)
    l = I.symbol('logicalValue')
    for (s, nv) in single(I, st, I.run_method(st, AX, 'logicalToNative', A, [l]), 'logicalToNative'):
        ctx.instance('C08.R2', 'firmware-map')
        want = l.p * S('A.unitMultiplier') + S('A.offset') + S('A.homeOffset')
        if not (isinstance(nv, Num) and nv.p == want):
            ctx.report('C08.R2', 'AxisPosition.logicalToNative', 'absolute map = %r' % (getattr(nv, 'p', nv),),
                       'absolute conversion is not logical*unit + offset + homeOffset')
    # L2: G92 - after setLogicalOffsetPosition(v) in absolute mode the logical position reads v, the tool did not move
    st = State()
    A = axis(st, I, 'A', True)
    v = I.symbol('g92Value')
    for (s, _r) in I.run_method(st, AX, 'setLogicalOffsetPosition', A, [v]):
        for (s2, lv) in single(I, s, I.run_method(s, AX, 'nativeToLogical', A, []), 'nativeToLogical()'):
            ctx.instance('C08.R2', 'L2')
            cur = live_alts(s2, s2.heap[('A', 'current')])
            if not all(isinstance(c, Num) and c.p == S('A.current') for c in cur):
                ctx.report('C08.R2', 'AxisPosition.setLogicalOffsetPosition', 'G92 moves the tool',
                           'G92 must not change the native position')
            if not (isinstance(lv, Num) and lv.p == v.p):
                ctx.report('C08.R2', 'AxisPosition.setLogicalOffsetPosition', 'after G92 v the logical position is not v',
                           'after "G92 X<v>" the tracked logical position is %r instead of v: every later absolute '
                           'coordinate of the file is mapped to the wrong native position' % (getattr(lv, 'p', lv),))
    # homing
    st = State()
    A = axis(st, I, 'A', None)
    for (s, _r) in I.run_method(st, AX, 'setHome', A, []):
        ctx.instance('C08.R2', 'home')
        for fld in ('current', 'offset'):
            x = live_alts(s, s.heap[('A', fld)])
            if not all(isinstance(c, Num) and c.is_const() and c.p.const_value() == 0 for c in x):
                ctx.report('C08.R2', 'AxisPosition.setHome', 'homing leaves %s = %r' % (fld, x), 'G28 must zero position and G92 offset')


FRAMES = {
    'setHome': ((), ('current', 'offset')),
    'setAbsoluteMode': (('flag',), ('absoluteMode',)),
    'setUnitMultiplier': (('num+',), ('unitMultiplier',)),
    'setLogicalOffsetPosition': (('num',), ('offset',)),
    'setHomeOffset': (('num',), ('homeOffset', 'current')),
    'setLogicalPosition': (('num',), ('current',)),
}


def guarded_alts(st, v, acc=None):
    """alternatives of a lazily decided value that are alive on the path, each with the decisions it stands for"""
    from .values import Choice
    acc = dict(acc or {})
    if not isinstance(v, Choice):
        return [(acc, v)]
    out = []
    for cons, x in v.alts:
        a = dict(acc)
        ok = True
        for k, allowed in cons.items():
            cur = st.dom.get(k)
            both = allowed if cur is None else (cur & allowed)
            if k in a:
                both = both & a[k]
            if not both:
                ok = False
                break
            a[k] = both
        if ok:
            out.extend(guarded_alts(st, x, a))
    return out


def frame_premise(ctx):
    """the frame conditions as a premise of another property (C01 / C02: the region test reads the tracked position)"""
    ctx.rule('C08.R8', 'C08: frame conditions of the AxisPosition mutators - each changes only its own fields (homing keeps '
                       'units, positioning mode and home offset; unit and mode switches keep the position)', floor=4)
    frame_rule(ctx, make_interp(ctx.model, modular=False))


def frame_rule(ctx, I):
    for meth, (argkinds, may_change) in sorted(FRAMES.items()):
        c, fn = I.m.lookup(AX, meth)
        if fn is None:
            raise AnalysisError('anchor vanished: AxisPosition.%s' % meth)
        st = State()
        A = axis(st, I, 'A', None)
        st0 = dict((fld, st.heap[('A', fld)]) for fld in FIELDS)
        args = []
        for k in argkinds:
            if k == 'flag':
                args.append(I.atom(('arg', meth, 'flag')))
            elif k == 'num+':
                args.append(I.symbol('arg:%s' % meth, frozenset([1])))
            else:
                args.append(I.symbol('arg:%s' % meth))
        for (s, v) in I.run_method(st, AX, meth, A, args):
            if isinstance(v, Raised):
                continue
            ctx.instance('C08.R8', (meth, tuple(sorted((repr(k), tuple(sorted(map(str, d)))) for k, d in s.dom.items() if k[0] != 'sgn'))[-2:]))
            init = dict((fld, vkey(st0[fld])) for fld in FIELDS)
            for e in s.trace:
                if e[0] != 'write' or e[4] != 'A' or e[2] in may_change or e[2] not in FIELDS:
                    continue
                if vkey(e[3]) == init[e[2]]:
                    continue            # re-assigned the very value it had
                for acc, x in guarded_alts(s, e[3]):
                    if vkey(x) == init[e[2]]:
                        continue
                    # the value it had in the cases where this alternative is written
                    had = set(vkey(y) for y in live_alts(s, st0[e[2]], acc))
                    if had == {vkey(x)}:
                        continue
                    if e[2] == 'absoluteMode' and x in (True, False) and s.dom.get(('fld', 'A', 'absoluteMode')) == frozenset([x]):
                        continue        # re-assigned the value it was found to have
                    ctx.report('C08.R8', 'AxisPosition.%s' % meth, '%s changes %s' % (meth, e[2]),
                               '%s must leave %s alone (it becomes %r): for example homing must not cancel G91 or G20 - the '
                               'firmware keeps units and positioning mode, so every later word would be mis-read'
                               % (meth, e[2], getattr(x, 'p', x)))


def native_args_rule(ctx, I, r1='C08.R1', r7='C08.R7'):
    for absolute in (True, False):
        st, H, S = new_handlers_state(I)
        st.restrict(('fld', S_OID, '_exclusionEnabled'), frozenset([True]))
        for ax in ('X_AXIS', 'Y_AXIS'):
            st.restrict(('fld', '%s.position.%s' % (S_OID, ax), 'absoluteMode'), frozenset([absolute]))
        st.dom[('more', 'regions', 0)] = frozenset([True])
        st.dom[('more', 'regions', 1)] = frozenset([False])
        px, py = I.symbol('ptx'), I.symbol('pty')
        res = I.run_method(st, 'ExcludeRegionState', 'isAnyPointExcluded', S, [px, py])
        qx, qy = I.symbol('ptx2'), I.symbol('pty2')
        st2, H2, S2 = new_handlers_state(I)
        st2.restrict(('fld', S_OID, '_exclusionEnabled'), frozenset([True]))
        for ax in ('X_AXIS', 'Y_AXIS'):
            st2.restrict(('fld', '%s.position.%s' % (S_OID, ax), 'absoluteMode'), frozenset([absolute]))
        st2.dom[('more', 'regions', 0)] = frozenset([True])
        st2.dom[('more', 'regions', 1)] = frozenset([False])
        for pts, rs in (((px, py), res), ((px, py, qx, qy), I.run_method(st2, 'ExcludeRegionState', 'isAnyPointExcluded', S2, [px, py, qx, qy]))):
            for (s, v) in rs:
                if isinstance(v, Raised):
                    continue
                ctx.instance(r7, ('points', len(pts) // 2, 'abs' if absolute else 'rel', repr(v)))
                for i, axn in ((0, 'X_AXIS'), (1, 'Y_AXIS')):
                    o = '%s.position.%s' % (S_OID, axn)
                    u = Poly.sym(o + '.unitMultiplier')
                    mine = [q.p for q in pts[i::2]]
                    if absolute:
                        want = mine[-1] * u + Poly.sym(o + '.offset') + Poly.sym(o + '.homeOffset')
                    else:
                        want = Poly.sym(o + '.current')
                        for q in mine:
                            want = want + q * u
                    for a in live_alts(s, s.heap[(o, 'current')]):
                        if not (isinstance(a, Num) and a.p == want):
                            ctx.report(r7, 'ExcludeRegionState.isAnyPointExcluded',
                                       '%s tracked at the wrong place after %d point(s) (%s positioning)'
                                       % (axn[0], len(pts) // 2, 'absolute' if absolute else 'relative'),
                                       'after testing the points the tracked %s is %r; a printer given the same points is at %r'
                                       % (axn[0], getattr(a, 'p', a), want))
        for (s, v) in res:
            for e in s.trace:
                if e[0] == 'ext' and e[1].endswith('containsPoint'):
                    ctx.instance(r1, ('abs' if absolute else 'rel', repr(e[2])[:60]))
                    for arg, p, axn in ((e[2][0], px, 'X_AXIS'), (e[2][1], py, 'Y_AXIS')):
                        o = '%s.position.%s' % (S_OID, axn)
                        u = Poly.sym(o + '.unitMultiplier')
                        if absolute:
                            want = p.p * u + Poly.sym(o + '.offset') + Poly.sym(o + '.homeOffset')
                        else:
                            want = p.p * u + Poly.sym(o + '.current')
                        for a in live_alts(s, arg):
                            if not (isinstance(a, Num) and a.p == want):
                                ctx.report(r1, 'ExcludeRegionState.isAnyPointExcluded',
                                           '%s region-test argument (%s mode)' % (axn[0], 'absolute' if absolute else 'relative'),
                                           'the region test is given %r; a native coordinate %r is required (regions are '
                                           'defined in mm on the bed)' % (getattr(a, 'p', a), want))


XYZ = ('X_AXIS', 'Y_AXIS', 'Z_AXIS')
XYZE = XYZ + ('E_AXIS',)
# what a state-only code may change in the tracked frame: (axes, fields); everything else must keep its value
HANDLER_FRAME = {
    'G20': (XYZE, ('unitMultiplier',), ('feedRateUnitMultiplier',)),
    'G21': (XYZE, ('unitMultiplier',), ('feedRateUnitMultiplier',)),
    'G90': (XYZE, ('absoluteMode',), ()),
    'G91': (XYZE, ('absoluteMode',), ()),
    'G28': (XYZ, ('current', 'offset'), ()),
    'G92': (XYZE, ('current', 'offset'), ()),
    'M206': (XYZ, ('current', 'homeOffset'), ()),
    'M999': ((), (), ()),          # a code without handler of its own
}


def handler_frame(col, gcode, p, where):
    """a state-only code changes its own part of the tracked frame and nothing else (homing does not touch the extruder or
    the feed rate, a unit switch does not move an axis ...)"""
    axes, fields, sfields = HANDLER_FRAME[gcode]
    for e in p.st.trace:
        if e[0] != 'write':
            continue
        if e[1] == AX and str(e[4]).startswith(S_OID + '.position.'):
            axn = e[4].split('.')[-1]
            if axn in axes and e[2] in fields:
                continue
            name = '%s.%s' % (e[4], e[2])
        elif e[1] == 'ExcludeRegionState' and e[4] == S_OID and e[2] in ('feedRate', 'feedRateUnitMultiplier'):
            if e[2] in sfields:
                continue
            name = '%s.%s' % (S_OID, e[2])
        else:
            continue
        for acc, v in guarded_alts(p.st, e[3]):
            if isinstance(v, Num) and v.p == Poly.sym(name):
                continue                    # re-assigned the value it had
            if e[2] == 'absoluteMode' and v in (True, False):
                key = ('fld', e[4], 'absoluteMode')
                if acc.get(key, p.st.dom.get(key)) == frozenset([v]):
                    continue                # the flag re-assigned to itself (decided on the path or by this alternative)
            col.report('C08.R3', where, '%s changes %s' % (gcode, name.replace(S_OID + '.', '')),
                       '%s must leave %s alone (it becomes %r): the firmware does not change it, so the tracked frame and the '
                       'printer drift apart (a generated G92 E / travel is then computed from the wrong value)'
                       % (gcode, name.replace(S_OID + '.', ''), getattr(v, 'p', v)))
            break


def sibling_premise(col, gcode, paths, I):
    """C08.R3 as a premise of another property: the unit / positioning-mode codes act on every axis alike"""
    col.rule('C08.R3', 'C08: G20 / G21 set the unit factor of every axis and of the feed rate, G90 / G91 the positioning mode of '
                       'X, Y, Z (and E as configured); every state-only code (also G28, G92, M206) changes its own part of the '
                       'tracked frame and nothing else', floor=4)
    sibling_paths(col, gcode, paths, I, own=False)


def state_code_premise(ctx):
    run_path_rules(ctx, __name__, 'sibling_premise', ['G20', 'G21', 'G90', 'G91', 'G28', 'G92', 'M206', 'M999'], unroll=1)


def sibling_paths(col, gcode, paths, I, own=True):
    if own:
        declare(col)
    if gcode in ('G0', 'G1', 'G2', 'G3'):
        homogeneity_paths(col, gcode, paths, I)
    for p in paths:
        f = Facts(p, I)
        if f.raised:
            continue
        col.instance('C08.R3', (gcode, f.describe()))
        if gcode in ('G0', 'G1'):
            from .rules_c04 import recorded_amount
            recorded_amount(col, gcode, [p], I, 'C08.R9')
        if gcode in ('G0', 'G1', 'G2', 'G3'):
            from .pathfacts import exact_tracking
            col.instance('C08.R7', (gcode, f.describe(), tuple(f.decisions()[-5:])))
            for (fn, construct, msg) in exact_tracking(f, gcode):
                col.report('C08.R7', fn, construct, msg, detail={'entry': p.entry})
        writes = {}
        for e in p.st.trace:
            if e[0] == 'write' and e[1] == AX:
                writes.setdefault(e[2], {})[e[4].split('.')[-1]] = live_alts(p.st, e[3])
            if e[0] == 'write' and e[1] == 'ExcludeRegionState' and e[2] == 'feedRateUnitMultiplier':
                writes.setdefault('feed', {})['feed'] = live_alts(p.st, e[3])
        where = 'GcodeHandlers._handle_%s' % gcode
        if gcode in HANDLER_FRAME:
            handler_frame(col, gcode, p, where)
        if gcode == 'G92' and 'V' in f.pstatus('E'):
            # G92 E<v> makes v the logical extruder position - for every v, zero included (slicers reset with G92 E0)
            from .pathfacts import CMDKEY, consistent
            eo = '%s.position.E_AXIS' % S_OID
            want = Poly.sym('p:E') * Poly.sym(eo + '.unitMultiplier') + Poly.sym(eo + '.offset') + Poly.sym(eo + '.homeOffset')
            # (absolute extrusion: with a relative extruder only differences of the tracked E are ever used)
            assume = {('param', CMDKEY, 'E'): frozenset(['V']), ('fld', eo, 'absoluteMode'): frozenset([True])}
            if consistent(p.st, assume):
                for v in f.final(eo, 'current', assume):
                    if isinstance(v, Num) and v.p != want:
                        col.report('C08.R3', where, 'G92 E word not applied (tracked E becomes %r)' % (v.p,),
                                   'after G92 E<v> the tracked extruder position must be the logical value v (here %r) whatever v is; '
                                   'on some path (for example v = 0) it is not, so the next generated G92 E re-labels the printer\'s '
                                   'register with a stale value' % (want,), detail={'entry': p.entry, 'decisions': f.decisions()[-6:]})
                        break
        if gcode in ('G20', 'G21'):
            want = 25.4 if gcode == 'G20' else 1
            got = writes.get('unitMultiplier', {})
            for axn in ('X_AXIS', 'Y_AXIS', 'Z_AXIS', 'E_AXIS'):
                vals = got.get(axn)
                if not vals or not all(isinstance(v, Num) and v.is_const() and float(v.p.const_value()) == want for v in vals):
                    col.report('C08.R3', where, '%s: %s unit factor %r' % (gcode, axn, vals),
                               '%s must set the unit factor %s on every axis (X, Y, Z and E)' % (gcode, want))
            fv = writes.get('feed', {}).get('feed')
            if not fv or not all(isinstance(v, Num) and v.is_const() and float(v.p.const_value()) == want for v in fv):
                col.report('C08.R3', where, '%s: feed-rate unit factor %r' % (gcode, fv),
                           '%s must set the same factor for feed rates' % gcode)
        if gcode in ('G90', 'G91'):
            want = gcode == 'G90'
            got = writes.get('absoluteMode', {})
            for axn in ('X_AXIS', 'Y_AXIS', 'Z_AXIS'):
                if got.get(axn) != [want]:
                    col.report('C08.R3', where, '%s: %s mode %r' % (gcode, axn, got.get(axn)),
                               '%s must switch X, Y and Z to %s positioning' % (gcode, 'absolute' if want else 'relative'))
            g90e = p.fld(S_OID, 'g90InfluencesExtruder')
            if (g90e is True) != ('E_AXIS' in got) or ('E_AXIS' in got and got['E_AXIS'] != [want]):
                col.report('C08.R3', where, '%s: extruder mode with g90InfluencesExtruder=%s -> %r' % (gcode, g90e, got.get('E_AXIS')),
                           'the extruder mode must follow G90/G91 exactly when the firmware setting says so')
        if gcode in ('G2', 'G3') and ('ExcludeRegionState', 'processLinearMoves') in f.calls:
            col.instance('C08.R5', (gcode, f.describe()))
            for axn, letter in (('X_AXIS', 'X'), ('Y_AXIS', 'Y')):
                o = '%s.position.%s' % (S_OID, axn)
                if p.fld(o, 'absoluteMode') is not True and (f.pstatus(letter) & frozenset(['A', 'F'])):
                    init = Poly.sym(o + '.current')
                    assume = {('fld', o, 'absoluteMode'): frozenset([False]),
                              ('param', ('sstr', 'CMD'), letter): frozenset(['A', 'F'])}
                    for v in f.final(o, 'current', assume):
                        if isinstance(v, Num) and v.p != init and not any('planArc' in s for s in v.p.symbols()):
                            col.report('C08.R5', where.replace('G3', 'G2'), 'absolute arc coordinates interpreted in relative mode',
                                       'in relative positioning an arc without %s word must end at the current %s; the '
                                       'handler passes the absolute logical position, which processLinearMoves adds to the '
                                       'current position again (tracked %s becomes %r)' % (letter, letter, letter, v.p),
                                       detail={'entry': p.entry})


def unit_weight(I, name):
    """scaling degree of a symbol under re-encoding with factor t: file-unit quantities -1, unit factors +1, native 0"""
    if name.endswith('.unitMultiplier') or name.endswith('feedRateUnitMultiplier'):
        return 1
    if name.startswith('p:') or ('@GcodeHandlers' in name and '.ret[' in name):
        return -1
    info = I.syminfo.get(name, {})
    if info.get('kind') == 'app':
        ws = set()
        for a in info.get('args', ()):
            if isinstance(a, Num):
                for m in a.p.t:
                    ws.add(sum(e * unit_weight(I, s2) for s2, e in m))
        if len(ws) == 1 and info.get('fn') in ('hypot', 'abs', 'sqrt', 'max', 'min', 'ceil', 'floor', 'int'):
            w = ws.pop()
            return w // 2 if info.get('fn') == 'sqrt' and w % 2 == 0 else w
        return 0
    return 0


def homogeneity_paths(col, gcode, paths, I):
    for p in paths:
        for k, d in p.st.dom.items():
            if k[0] != 'sgn' or len(d) == 3:
                continue
            poly = Poly(dict(k[1]))
            degs = set()
            for m in poly.t:
                degs.add(sum(e * unit_weight(I, s2) for s2, e in m))
            col.instance('C08.R6', (gcode, repr(poly)[:60]))
            if len(degs) > 1:
                col.report('C08.R6', 'GcodeHandlers.handleGcode', 'decision on %s' % repr(poly)[:120],
                           'a branch of %s compares quantities that scale differently under a change of units (for example a '
                           'file-unit length against an absolute constant): the same physical path decides differently in '
                           'inches and millimetres' % gcode, detail={'entry': p.entry})


def ownership_rule(ctx):
    m = ctx.model
    reviewed = {
        ('RetractionState._addCommands', 'current'): 'temporary E shift, restored in the same function (C04.R3)',
        ('ExcludeRegionState.processLinearMoves', 'current'): 'Z of the lastPosition snapshot set to the pre-command height (C03.R2)',
    }
    for fld in FIELDS:
        for (q, val, line, mod, aug) in census.attr_stores(m, fld, only_foreign=('AxisPosition',)):
            ctx.instance('C08.R4', (q, fld))
            if q.startswith('AxisPosition.'):
                continue
            if (q, fld) in reviewed or any(f2 == fld and census.only_reached_through(m, q, (q2,)) for (q2, f2) in reviewed):
                continue
            ctx.report('C08.R4', q, '.%s written outside AxisPosition' % fld,
                       'an axis field is written directly, bypassing the unit/offset/mode conversions', line=line)


def run(ctx, tier):
    declare(ctx)
    I = make_interp(ctx.model, modular=False)
    laws(ctx, I)
    frame_rule(ctx, make_interp(ctx.model, modular=False))
    from .rules_c04 import addcommands_rule
    addcommands_rule(ctx, 'C08.R9', 'C08.R9')
    I2 = make_interp(ctx.model)
    native_args_rule(ctx, I2)
    run_path_rules(ctx, __name__, 'sibling_paths', ['G20', 'G21', 'G90', 'G91', 'G28', 'G92', 'M206', 'M999', 'G0', 'G1', 'G2', 'G3'], unroll=1)
    ownership_rule(ctx)
    # generated exit commands are expressed in the frame (unit, offsets) in force when they are generated: C03.R1 / R4
    from . import rules_c03
    ctx.rule('C03.R1', 'C03: exit composition - pending, exit script, G92 E, one X/Y travel, Z before XY iff rising / after iff falling', floor=6)
    ctx.rule('C03.R4', 'C03: every word of the exit commands is the logical value of the tracked native position in the current '
                       'frame ((current-offset-homeOffset)/unitMultiplier of the live axis), feed rate in file units', floor=6)
    rules_c03.exit_rules(ctx, make_interp(ctx.model), {('fld', S_OID, 'excluding'): [True]}, 'exitExcludedRegion')
    ctx.assume('exact real arithmetic; translation of path and regions by a common vector is pure geometry and not decided')
    ctx.assume('firmware convention: native = logical*unit + G92 offset + M206 offset')
