"""Path-sensitive abstract interpreter over the repository's AST (component D of DESIGN.md).

Nothing of /repo is executed: the interpreter walks the syntax trees, inlines every resolved callee and
enumerates every combination of the (finite) abstract decisions.  Numbers are polynomials over named
input symbols (sa/poly.py), comparisons refine a sign set per canonical difference, booleans /
None-ness / parameter presence are lazily decided `Choice` values.
"""
import ast

from .model import AnalysisError
from .poly import Poly
from .state import State
from .values import (NONE, Num, Str, SStr, Cat, Obj, TupleV, Star, Choice, Opaque, Bound, ClassRef, ExtFn,
                     ModuleRef, IterV, ParamIter, FuncV, vkey)

BOOL = frozenset([True, False])
SIGNS = frozenset([-1, 0, 1])
MAX_DEPTH = 14


class Unsupported(AnalysisError):
    pass


class Raised(object):
    """exceptional outcome"""
    __slots__ = ('exc', 'info', 'where')

    def __init__(self, exc, info='', where=None):
        self.exc = exc
        self.info = info
        self.where = where

    def __repr__(self):
        return 'Raised(%s: %s @%s)' % (self.exc, self.info, self.where)


class Frame(object):
    __slots__ = ('cls', 'mod', 'fn', 'depth')

    def __init__(self, cls, mod, fn, depth):
        self.cls = cls
        self.mod = mod
        self.fn = fn
        self.depth = depth

    def qual(self):
        return '%s.%s' % (self.cls, self.fn.name) if self.cls else self.fn.name


def closure_snapshot(node, env, frame):
    """the enclosing variables a nested function / lambda reads, as they are at its definition.  Python closures see later
    re-assignments too; a variable that the enclosing function assigns again after the definition is therefore refused."""
    own = set(a.arg for a in node.args.args + node.args.kwonlyargs)
    if node.args.vararg:
        own.add(node.args.vararg.arg)
    if node.args.kwarg:
        own.add(node.args.kwarg.arg)
    body = node.body if isinstance(node.body, list) else [node.body]
    for n in ast.walk(ast.Module(body=body, type_ignores=[]) if isinstance(node.body, list) else node.body):
        if isinstance(n, ast.Name) and isinstance(n.ctx, ast.Store):
            own.add(n.id)
    free = set()
    for b in body:
        for n in ast.walk(b):
            if isinstance(n, ast.Name) and isinstance(n.ctx, ast.Load) and n.id not in own:
                free.add(n.id)
    snap = dict((k, v) for k, v in env.items() if k in free)
    end = getattr(node, 'end_lineno', node.lineno)
    for n in ast.walk(frame.fn):
        if isinstance(n, ast.Name) and isinstance(n.ctx, ast.Store) and n.id in snap and n.lineno > end:
            raise Unsupported('closure over %s, which is assigned again after the definition in %s' % (n.id, frame.qual()))
    return snap


_GUARD_IFS = {}


RECORD_ARGS = frozenset([('ExcludeRegionState', 'processLinearMoves')])


class Interp(object):
    def __init__(self, model, fieldspec=None, unroll=1, debug_logging=False):
        self.m = model
        self.fieldspec = fieldspec or {}
        self.unroll = unroll
        self.debug_logging = debug_logging
        self.syminfo = {}       # symbol name -> dict(kind=..., signs=frozenset, fn=..., args=...)
        self.stats = {'calls': 0, 'forks': 0, 'stmts': 0}
        self.summaries = {}     # (cls, name) -> callable(interp, st, recv, args, kw, frame, node) -> results
        self.ext_handlers = {}  # external name -> callable
        self.max_paths = 400000
        self.deadline = None    # wall-clock limit of one entry-point evaluation (set by the handler workers)
        self.modular = {}       # (cls, name) -> True: evaluate once in isolation, abstract numeric results
        self.modular_cache = {}
        self.trace_classes = set(['ExcludeRegionState', 'GcodeHandlers', 'RetractionState', 'ExcludeRegionPlugin',
                                  'StreamProcessor'])
        from . import externals
        externals.install(self)

    # ------------------------------------------------------------------ symbols
    def symbol(self, name, signs=SIGNS, **info):
        if name not in self.syminfo:
            d = {'signs': frozenset(signs)}
            d.update(info)
            self.syminfo[name] = d
        return Num.sym(name)

    def app(self, fn, args, signs=SIGNS):
        """opaque application of a non-polynomial function to normalised arguments"""
        name = '%s(%s)' % (fn, ','.join(repr(a.p) if isinstance(a, Num) else repr(a) for a in args))
        return self.symbol(name, signs, kind='app', fn=fn, args=tuple(args))

    def symdeps(self, name):
        info = self.syminfo.get(name)
        out = set()
        if info and info.get('kind') == 'app':
            for a in info['args']:
                if isinstance(a, Num):
                    for s in a.p.symbols():
                        out.add(s)
                        out |= self.symdeps(s)
        return out

    # ------------------------------------------------------------------ decisions
    def decide(self, st, key, universe, want):
        """fork st on `value(key) in want`; returns [(state, bool)]"""
        cur = st.dom.get(key, universe)
        yes = cur & want
        no = cur - want
        if yes and not no:
            return [(st, True)]
        if no and not yes:
            return [(st, False)]
        if not yes and not no:
            raise AnalysisError('empty domain for %r' % (key,))
        self.stats['forks'] += 1
        s1 = st.clone()
        s1.restrict(key, yes)
        s2 = st
        s2.restrict(key, no)
        return [(s1, True), (s2, False)]

    def atom(self, key):
        return Choice([({key: frozenset([True])}, True), ({key: frozenset([False])}, False)])

    def maybe(self, key, value):
        """None when key is decided True"""
        return Choice([({key: frozenset([True])}, NONE), ({key: frozenset([False])}, value)])

    def force(self, st, v):
        """resolve Choice values against the path decisions; returns [(state, concrete value)]"""
        if not isinstance(v, Choice):
            return [(st, v)]
        live = []
        for cons, val in v.alts:
            ok = True
            for k, allowed in cons.items():
                cur = st.dom.get(k)
                if cur is not None and not (cur & allowed):
                    ok = False
                    break
            if ok:
                live.append((cons, val))
        if not live:
            raise AnalysisError('no live alternative in %r' % (v,))
        out = []
        for i, (cons, val) in enumerate(live):
            s = st if i == len(live) - 1 else st.clone()
            for k, allowed in cons.items():
                cur = s.dom.get(k)
                new = allowed if cur is None else (cur & allowed)
                if cur is None or new != cur:
                    s.restrict(k, new)
            out.extend(self.force(s, val))
        if len(live) > 1:
            self.stats['forks'] += len(live) - 1
        return out

    # ------------------------------------------------------------------ sign inference
    def sym_signs(self, st, name):
        info = self.syminfo.get(name, {})
        base = info.get('signs', SIGNS)
        cur = st.dom.get(('sgn', Poly.sym(name).key()))
        if cur is not None:
            base = base & cur
        if 0 in base and info.get('kind') == 'app' and info.get('fn') in ('hypot', 'abs'):
            # hypot(a, b) = 0 iff a = b = 0 ; abs(a) = 0 iff a = 0
            for a in info['args']:
                if isinstance(a, Num) and 0 not in self.infer_signs(st, a.p, _nosq=True):
                    base = base - {0}
                    break
        return base

    def _abs_poly(self, st, p):
        sg = self.infer_signs(st, p, _nosq=True)
        if sg <= frozenset([0, 1]):
            return p
        if sg <= frozenset([-1, 0]):
            return -p
        return self.app('abs', [Num(p)], frozenset([0, 1])).p

    def _diff_of_squares(self, st, p):
        """p = A^2 - B^2 (two square monomials of opposite sign) has the sign of |A| - |B|"""
        if len(p.t) != 2:
            return None
        roots = []
        for m, c in p.t.items():
            if any(e % 2 for _s, e in m):
                return None
            ac = abs(c)
            import math
            n, d = math.isqrt(ac.numerator), math.isqrt(ac.denominator)
            if n * n != ac.numerator or d * d != ac.denominator:
                return None
            from fractions import Fraction
            roots.append((1 if c > 0 else -1, Poly({tuple((s2, e // 2) for s2, e in m): Fraction(n, d)})))
        if roots[0][0] == roots[1][0]:
            return None
        a = [r for sg, r in roots if sg > 0][0]
        b = [r for sg, r in roots if sg < 0][0]
        return self.infer_signs(st, self._abs_poly(st, a) - self._abs_poly(st, b), _nosq=True)

    def clear_denominators(self, st, p):
        """multiply p by positive symbols so that none of them occurs with a negative exponent; the sign is
        unchanged and `deltaE / unitMultiplier` shares its sign facts with `deltaE`"""
        low = {}
        for m in p.t:
            for s, e in m:
                if e < 0 and e < low.get(s, 0):
                    low[s] = e
        for s, e in low.items():
            if self.syminfo.get(s, {}).get('signs', SIGNS) <= frozenset([1]):
                f = Poly({((s, -e),): 1})
                p = p * f
        # strip positive symbols that are a common factor of every term
        if p.t:
            common = None
            for m in p.t:
                d = dict((s, e) for s, e in m if e > 0)
                if common is None:
                    common = d
                else:
                    common = dict((s, min(e, d[s])) for s, e in common.items() if s in d)
                if not common:
                    break
            for s, e in (common or {}).items():
                if self.syminfo.get(s, {}).get('signs', SIGNS) <= frozenset([1]):
                    p = p * Poly({((s, -e),): 1})
        return p

    def infer_signs(self, st, p, _nosq=False):
        """superset of the possible signs of polynomial p under the path's decisions"""
        p = self.clear_denominators(st, p)
        r = self._infer_signs(st, p)
        if len(r) > 1 and not _nosq:
            d = self._diff_of_squares(st, p)
            if d is not None:
                r = r & d
        return r

    def _infer_signs(self, st, p):
        if p.is_const():
            c = p.const_value()
            return frozenset([0 if c == 0 else (1 if c > 0 else -1)])
        unit, sgn = p.canon()
        known = st.dom.get(('sgn', unit.key()))
        total = None
        for m, c in p.t.items():
            ts = frozenset([1 if c > 0 else -1])
            for s, e in m:
                ss = self.sym_signs(st, s)
                if e % 2 == 0:
                    ss = frozenset(abs(x) for x in ss)
                if e < 0 and 0 in ss:
                    ss = ss - {0}
                ts = frozenset(a * b for a in ts for b in ss)
            if total is None:
                total = ts
            else:
                # sum of two quantities with sign sets
                acc = set()
                for a in total:
                    for b in ts:
                        if a == 0:
                            acc.add(b)
                        elif b == 0 or a == b:
                            acc.add(a)
                        else:
                            acc |= {-1, 0, 1}
                total = frozenset(acc)
        if known is not None:
            total = total & frozenset(x * sgn for x in known)
        return total

    def decide_sign(self, st, p, want):
        """fork on sign(p) in want"""
        if p.is_const():
            c = p.const_value()
            s = 0 if c == 0 else (1 if c > 0 else -1)
            return [(st, s in want)]
        p = self.clear_denominators(st, p)
        unit, sgn = p.canon()
        key = ('sgn', unit.key())
        cur = self.infer_signs(st, p)              # signs of p
        ucur = frozenset(x * sgn for x in cur)     # signs of unit
        if key not in st.dom or st.dom[key] != ucur:
            if not ucur:
                raise AnalysisError('contradictory sign facts for %r' % (p,))
            st.dom[key] = ucur
        uwant = frozenset(x * sgn for x in want)
        return self.decide(st, key, SIGNS, uwant)

    # ------------------------------------------------------------------ function execution
    def run_method(self, st, cls, name, recv, args, kw=None, depth=0):
        c, fn = self.m.lookup(cls, name)
        if fn is None:
            raise AnalysisError('anchor vanished: %s.%s' % (cls, name))
        return self.run_fn(st, c, self.m.classes[c].module, fn, recv, list(args), kw or {}, depth)

    def run_fn(self, st, cls, mod, fn, recv, args, kw, depth, node=None, closure=None):
        """returns [(state, value | Raised)]"""
        self.stats['calls'] += 1
        if depth > MAX_DEPTH:
            raise AnalysisError('inlining depth exceeded at %s.%s' % (cls, fn.name))
        frame = Frame(cls, mod, fn, depth)
        if cls in self.trace_classes:
            st.ev('call', cls, fn.name, depth)
        a = fn.args
        if a.posonlyargs:
            raise Unsupported('positional-only parameters in %s' % frame.qual())
        params = [x.arg for x in a.args]
        pos = list(args)
        if recv is not None:
            pos = [recv] + pos
        env = dict(closure) if closure else {}
        dmap = dict(zip(params[len(params) - len(a.defaults):], a.defaults))
        kw = dict(kw)
        for i, p in enumerate(params):
            if i < len(pos):
                env[p] = pos[i]
            elif p in kw:
                env[p] = kw.pop(p)
            elif p in dmap:
                r = self.eval(st, env, dmap[p], frame)
                if len(r) != 1:
                    raise Unsupported('forking default value')
                st, env[p] = r[0]
            else:
                return [(st, Raised('TypeError', 'missing argument %s of %s' % (p, frame.qual())))]
        for kp, kd in zip(a.kwonlyargs, a.kw_defaults):
            if kp.arg in kw:
                env[kp.arg] = kw.pop(kp.arg)
            elif kd is not None:
                r = self.eval(st, env, kd, frame)
                if len(r) != 1:
                    raise Unsupported('forking default value')
                st, env[kp.arg] = r[0]
            else:
                return [(st, Raised('TypeError', 'missing keyword argument %s of %s' % (kp.arg, frame.qual())))]
        extra = pos[len(params):]
        if a.vararg:
            env[a.vararg.arg] = TupleV(extra)
        elif extra:
            return [(st, Raised('TypeError', 'too many arguments for %s' % frame.qual()))]
        if a.kwarg:
            oid = st.new_oid('dict', 'kwargs')
            st.maps[oid] = tuple(('kv', Str(k), v) if k != '**' else ('star', 'kwargs**') for k, v in kw.items())
            env[a.kwarg.arg] = Obj(oid)
        elif kw:
            if '**' in kw:
                pass
            else:
                return [(st, Raised('TypeError', 'unexpected keyword %s for %s' % (sorted(kw), frame.qual())))]
        if (cls, fn.name) in RECORD_ARGS:
            st.ev('args', cls, fn.name, tuple((k, v) for k, v in env.items() if k != 'self'))
        gen = _is_generator(fn)
        if gen:
            # a generator is run to completion; its yields are collected in order
            goid = st.new_oid('list', 'yields@%s' % fn.name)
            st.seqs[goid] = ()
            env['@yield'] = Obj(goid)
        out = []
        for (s2, e2, oc) in self.block(st, env, fn.body, frame):
            if gen:
                if oc is not None and oc[0] == 'raise':
                    out.append((s2, oc[1]))
                else:
                    from .values import IterV
                    out.append((s2, IterV(s2.seqs[goid], 'generator:%s' % fn.name)))
                continue
            if oc is None:
                out.append((s2, NONE))
            elif oc[0] == 'ret':
                out.append((s2, oc[1]))
            elif oc[0] == 'raise':
                out.append((s2, oc[1]))
            else:
                raise Unsupported('loop control outside loop in %s' % frame.qual())
        if len(out) > self.max_paths:
            raise AnalysisError('path explosion in %s' % frame.qual())
        return out

    # ------------------------------------------------------------------ statements
    def block(self, st, env, stmts, frame):
        cur = [(st, env, None)]
        for ix, s in enumerate(stmts):
            if getattr(self, 'merge_ifs', True) and isinstance(s, ast.If) and not s.orelse and s.body and \
                    isinstance(s.body[-1], ast.Return) and ix + 1 < len(stmts) and isinstance(stmts[-1], ast.Return) and \
                    len(cur) == 1 and cur[0][2] is None:
                # guard clause: `if c: return a` followed by the rest of the block is `if c: return a else: <rest>`; written
                # that way both branches end in a return and can be merged into one lazily decided result
                key = id(s)
                syn = _GUARD_IFS.get(key)
                if syn is None:
                    syn = ast.If(test=s.test, body=s.body, orelse=list(stmts[ix + 1:]))
                    ast.copy_location(syn, s)
                    _GUARD_IFS[key] = syn
                (s1, e1, _oc) = cur[0]
                return self.stmt(s1, e1, syn, frame)
            nxt = []
            for (s1, e1, oc) in cur:
                if oc is not None:
                    nxt.append((s1, e1, oc))
                else:
                    nxt.extend(self.stmt(s1, e1, s, frame))
            cur = nxt
        return cur

    def _multi(self, results, env):
        """pair each (state, value) with its own env copy when there are several"""
        if len(results) == 1:
            return [(results[0][0], results[0][1], env)]
        return [(s, v, dict(env)) for (s, v) in results]

    def stmt(self, st, env, s, frame):
        self.stats['stmts'] += 1
        if self.deadline is not None and self.stats['stmts'] % 2000 == 0:
            import time as _time
            if _time.time() > self.deadline:
                raise AnalysisError('analysis budget exceeded in %s after %d abstract statements (path explosion: a construct '
                                    'the path merging / loop summaries do not cover)' % (frame.qual(), self.stats['stmts']))
        if isinstance(s, ast.Expr):
            if isinstance(s.value, ast.Constant):
                return [(st, env, None)]
            out = []
            for (s2, v, e2) in self._multi(self.eval(st, env, s.value, frame), env):
                out.append((s2, e2, ('raise', v) if isinstance(v, Raised) else None))
            return out
        if isinstance(s, ast.Assign):
            out = []
            for (s2, v, e2) in self._multi(self.eval(st, env, s.value, frame), env):
                if isinstance(v, Raised):
                    out.append((s2, e2, ('raise', v)))
                    continue
                cur = [(s2, e2, None)]
                for t in s.targets:
                    nxt = []
                    for (s3, e3, oc) in cur:
                        if oc is not None:
                            nxt.append((s3, e3, oc))
                        else:
                            nxt.extend(self.assign(s3, e3, t, v, frame))
                    cur = nxt
                out.extend(cur)
            return out
        if isinstance(s, ast.AugAssign):
            load = getattr(s, '_load', None)
            if load is None:
                load = ast.BinOp(left=_as_load(s.target), op=s.op, right=s.value)
                ast.copy_location(load, s)
                ast.fix_missing_locations(load)
                load._aug_inplace = True
                s._load = load
            out = []
            for (s2, v, e2) in self._multi(self.eval(st, env, load, frame), env):
                if isinstance(v, Raised):
                    out.append((s2, e2, ('raise', v)))
                else:
                    out.extend(self.assign(s2, e2, s.target, v, frame, aug=True))
            return out
        if isinstance(s, ast.Return):
            if s.value is None:
                return [(st, env, ('ret', NONE))]
            return [(s2, e2, ('raise', v) if isinstance(v, Raised) else ('ret', v))
                    for (s2, v, e2) in self._multi(self.eval(st, env, s.value, frame), env)]
        if isinstance(s, ast.If):
            from .merge import if_with_merge
            return if_with_merge(self, st, env, s, frame)
        if isinstance(s, ast.Assert):
            out = []
            for (s2, b, e2) in self._multi(self.truth(st, env, s.test, frame), env):
                if isinstance(b, Raised):
                    out.append((s2, e2, ('raise', b)))
                elif b:
                    out.append((s2, e2, None))
                else:
                    out.append((s2, e2, ('raise', Raised('AssertionError', _norm(s.test), (frame.qual(), s.lineno)))))
            return out
        if isinstance(s, ast.Raise):
            if s.exc is None:
                return [(st, env, ('raise', Raised('reraise', '', (frame.qual(), s.lineno))))]
            exc = s.exc
            name = exc.func.id if isinstance(exc, ast.Call) and isinstance(exc.func, ast.Name) else _norm(exc)
            out = []
            # evaluate the argument expressions (they may call into the program)
            results = [(st, None)]
            if isinstance(exc, ast.Call):
                for a in exc.args:
                    nxt = []
                    for (s1, _) in results:
                        nxt.extend(self.eval(s1, env, a, frame))
                    results = nxt
            for (s2, _v, e2) in self._multi(results, env):
                out.append((s2, e2, ('raise', Raised(name, _norm(exc)[:80], (frame.qual(), s.lineno)))))
            return out
        if isinstance(s, ast.For):
            from .loops import forloop
            return forloop(self, st, env, s, frame)
        if isinstance(s, ast.While):
            from .loops import whileloop
            return whileloop(self, st, env, s, frame)
        if isinstance(s, (ast.Import, ast.ImportFrom)):
            for a in s.names:
                if isinstance(s, ast.ImportFrom):
                    nm = a.asname or a.name
                    env[nm] = ClassRef(a.name) if a.name in self.m.classes else ModuleRef((s.module or '') + '.' + a.name)
                else:
                    env[a.asname or a.name.split('.')[0]] = ModuleRef(a.name)
            return [(st, env, None)]
        if isinstance(s, (ast.Pass, ast.Global)):
            return [(st, env, None)]
        if isinstance(s, ast.Break):
            return [(st, env, ('break',))]
        if isinstance(s, ast.Continue):
            return [(st, env, ('continue',))]
        if isinstance(s, ast.Try):
            return self.trystmt(st, env, s, frame)
        if isinstance(s, ast.With):
            # context managers of the package's environment (locks, files) are opaque: the body runs once
            cur = [(st, env, None)]
            for item in s.items:
                nxt = []
                for (s1, e1, oc) in cur:
                    for (s2, v, e2) in self._multi(self.eval(s1, e1, item.context_expr, frame), e1):
                        if isinstance(v, Raised):
                            nxt.append((s2, e2, ('raise', v)))
                        elif item.optional_vars is not None:
                            nxt.extend(self.assign(s2, e2, item.optional_vars, v, frame))
                        else:
                            nxt.append((s2, e2, None))
                cur = nxt
            out = []
            for (s1, e1, oc) in cur:
                if oc is not None:
                    out.append((s1, e1, oc))
                else:
                    out.extend(self.block(s1, e1, s.body, frame))
            return out
        if isinstance(s, ast.Delete):
            out = [(st, env, None)]
            for t in s.targets:
                nxt = []
                for (s1, e1, oc) in out:
                    if oc is not None:
                        nxt.append((s1, e1, oc))
                    else:
                        nxt.extend(self.delete(s1, e1, t, frame))
                out = nxt
            return out
        if isinstance(s, ast.FunctionDef) and not s.decorator_list:
            # a local helper function: a closure over a snapshot of the variables it reads
            env[s.name] = FuncV(frame.mod, s, closure_snapshot(s, env, frame), frame.cls)
            return [(st, env, None)]
        raise Unsupported('statement %s in %s' % (type(s).__name__, frame.qual()))

    def plain_if(self, st, env, s, frame):
        out = []
        for (s2, b, e2) in self._multi(self.truth(st, env, s.test, frame), env):
            if isinstance(b, Raised):
                out.append((s2, e2, ('raise', b)))
            else:
                out.extend(self.block(s2, e2, s.body if b else s.orelse, frame))
        return out

    def trystmt(self, st, env, s, frame):
        if s.finalbody:
            inner = ast.Try(body=s.body, handlers=s.handlers, orelse=s.orelse, finalbody=[])
            ast.copy_location(inner, s)
            out = []
            for (s1, e1, oc) in (self.trystmt(st, env, inner, frame) if (s.handlers or s.orelse) else self.block(st, env, s.body, frame)):
                for (s2, e2, oc2) in self.block(s1, e1, s.finalbody, frame):
                    out.append((s2, e2, oc2 if oc2 is not None else oc))
            return out
        out = []
        for (s1, e1, oc) in self.block(st, env, s.body, frame):
            if oc is None and s.orelse:
                out.extend(self.block(s1, e1, s.orelse, frame))
                continue
            if oc is not None and oc[0] == 'raise':
                exc = oc[1]
                handled = False
                for h in s.handlers:
                    names = []
                    if h.type is None:
                        names = None
                    elif isinstance(h.type, ast.Tuple):
                        names = [_norm(x) for x in h.type.elts]
                    else:
                        names = [_norm(h.type)]
                    if names is None or exc.exc in names or 'Exception' in names or 'BaseException' in names:
                        if h.name:
                            e1 = dict(e1)
                            e1[h.name] = Opaque('exc:%s' % exc.exc)
                        s1.ev('caught', exc.exc, frame.qual())
                        out.extend(self.block(s1, e1, h.body, frame))
                        handled = True
                        break
                if not handled:
                    out.append((s1, e1, oc))
            else:
                out.append((s1, e1, oc))
        return out

    # ------------------------------------------------------------------ assignment
    def assign(self, st, env, t, v, frame, aug=False):
        if isinstance(t, ast.Name):
            env[t.id] = v
            return [(st, env, None)]
        if isinstance(t, ast.Attribute):
            out = []
            for (s2, o, e2) in self._multi(self.evalf(st, env, t.value, frame), env):
                if isinstance(o, Raised):
                    out.append((s2, e2, ('raise', o)))
                    continue
                if isinstance(o, Obj):
                    cls = s2.cls[o.oid]
                    c, setter = self.m.lookup(cls, t.attr, 'setters')
                    if setter is not None and (c, t.attr + '=') in self.summaries:
                        for (s3, r) in self.summaries[(c, t.attr + '=')](self, s2, o, [v], {}, frame, t):
                            out.append((s3, e2 if s3 is s2 else dict(e2), ('raise', r) if isinstance(r, Raised) else None))
                        continue
                    if setter is not None:
                        for (s3, r) in self.run_fn(s2, c, self.m.classes[c].module, setter, o, [v], {}, frame.depth + 1):
                            e3 = e2 if s3 is s2 else dict(e2)
                            out.append((s3, e3, ('raise', r) if isinstance(r, Raised) else None))
                        continue
                    s2.heap[(o.oid, t.attr)] = v
                    s2.ev('write', cls, t.attr, v, o.oid, frame.qual(), aug)
                elif o is NONE:
                    out.append((s2, e2, ('raise', Raised('AttributeError', 'None.%s' % t.attr, (frame.qual(), t.lineno)))))
                    continue
                elif isinstance(o, ClassRef):
                    s2.ev('classattr-write', o.name, t.attr, v, frame.qual())
                else:
                    s2.ev('extwrite', vkey(o), t.attr, v, frame.qual())
                out.append((s2, e2, None))
            return out
        if isinstance(t, (ast.Tuple, ast.List)):
            out = []
            for (s2, vv) in self.force(st, v):
                e2 = env if s2 is st else dict(env)
                if isinstance(vv, TupleV) and len(vv.elems) == len(t.elts):
                    parts = vv.elems
                elif isinstance(vv, Obj) and vv.oid in s2.seqs and len(s2.seqs[vv.oid]) == len(t.elts) and \
                        not any(isinstance(x, Star) for x in s2.seqs[vv.oid]):
                    parts = s2.seqs[vv.oid]         # a list of known length (for example a comprehension result)
                elif isinstance(vv, (Opaque, SStr)):
                    parts = [Opaque('%s[%d]' % (vv.tag, i), vv.deps) for i in range(len(t.elts))]
                else:
                    raise Unsupported('unpacking %r in %s' % (vv, frame.qual()))
                cur = [(s2, e2, None)]
                for tt, pv in zip(t.elts, parts):
                    nxt = []
                    for (s3, e3, oc) in cur:
                        nxt.extend(self.assign(s3, e3, tt, pv, frame))
                    cur = nxt
                out.extend(cur)
            return out
        if isinstance(t, ast.Subscript):
            from .containers import setitem
            return setitem(self, st, env, t, v, frame)
        raise Unsupported('assignment target %s' % type(t).__name__)

    def delete(self, st, env, t, frame):
        if isinstance(t, ast.Subscript):
            from .containers import delitem
            return delitem(self, st, env, t, frame)
        raise Unsupported('del target %s' % type(t).__name__)

    # ------------------------------------------------------------------ expressions
    def evalf(self, st, env, e, frame):
        """evaluate and force"""
        out = []
        for (s, v) in self.eval(st, env, e, frame):
            if isinstance(v, Choice):
                out.extend(self.force(s, v))
            else:
                out.append((s, v))
        return out

    def eval(self, st, env, e, frame):
        from .exprs import eval_expr
        return eval_expr(self, st, env, e, frame)

    def truth(self, st, env, e, frame):
        from .exprs import truth_expr
        return truth_expr(self, st, env, e, frame)


_GEN = {}


def _is_generator(fn):
    r = _GEN.get(id(fn))
    if r is None:
        r = False
        for n in ast.walk(fn):
            if isinstance(n, (ast.Yield, ast.YieldFrom)):
                r = True
                break
        _GEN[id(fn)] = r
    return r


def _as_load(t):
    import copy
    t2 = copy.deepcopy(t)
    for n in ast.walk(t2):
        if hasattr(n, 'ctx'):
            n.ctx = ast.Load()
    return t2


def _norm(node):
    return ' '.join(ast.unparse(node).split())
