"""Retraction / extruder typestate analysis shared by C04 and C05.

The handlers' abstract paths are used as the transition relation of a finite machine over
  (excluding, lastRetraction shape)  x  ghost printer (E register offset against the file, physical retraction)
  x  file state (retracted or not).
The environment is the property's quantifier: matched, equal-length retract/recover cycles (E-only in absolute E
mode, or firmware G10/G11), interleaved with travel / printing moves whose destination is inside or outside a
region.  What a generated `G92 E<u>` / `G1 E<v>` pair does to the filament is derived from the polynomial values
of u and v, never assumed.
"""
from fractions import Fraction

from .entries import make_interp, new_handlers_state, Path
from .pathfacts import Facts, live_alts, classify, template_letters, S_OID
from .values import NONE, Num, Str, SStr, Cat, Obj, TupleV, Opaque, Choice, Star, vkey
from .absint import Raised
from .model import AnalysisError
from .poly import Poly

A = Poly.sym('A')          # length of one retraction cycle (positive)
P = Poly.sym('P')          # extrusion of a printing move (positive)
E0 = Poly.sym('E0')        # file's (and tracked) E before the command
CMDKEY = ('sstr', 'CMD')
E_OID = S_OID + '.position.E_AXIS'
LR = 'LR'

# ---- environment actions: (name, gcode, valued letters, delta E of the file, region outcome, world)
ACTIONS = [
    ('retract', 'G1', 'E', -1, None, 'e'),
    ('recover', 'G1', 'E', +1, None, 'e'),
    ('print-out', 'G1', 'XYE', 'P', False, 'both'),
    ('print-in', 'G1', 'XYE', 'P', True, 'both'),
    ('travel-out', 'G0', 'XY', 0, False, 'both'),
    ('travel-in', 'G0', 'XY', 0, True, 'both'),
    ('fw-retract', 'G10', '', 0, None, 'fw'),
    ('fw-recover', 'G11', '', 0, None, 'fw'),
    # the other ways an episode ends / exclusion is switched: @-command actions and the end-of-print script hook
    ('at-disable', '@disable', '', 0, None, 'both'),
    ('at-enable', '@enable', '', 0, None, 'both'),
]


class TS(object):
    """typestate of the filter"""
    __slots__ = ('excluding', 'lr', 'enabled')

    def __init__(self, excluding, lr, enabled=True):
        self.excluding = excluding
        self.lr = lr            # None | (recoverExcluded, allowCombine, firmware, amount in units of A or None)
        self.enabled = enabled

    def key(self):
        return (self.excluding, self.lr, self.enabled)

    def __repr__(self):
        dis = '' if self.enabled else 'DISABLED '
        if self.lr is None:
            return '%s%s/no-retraction' % (dis, 'excluding' if self.excluding else 'outside')
        return '%s%s/retraction(owed=%s,combine=%s,%s,len=%s)' % (dis, 'excluding' if self.excluding else 'outside',
                                                                self.lr[0], self.lr[1], 'fw' if self.lr[2] else 'E', self.lr[3])


def delta_poly(d):
    if d == 'P':
        return P
    return A * Poly.const(d)


def prep_for(ts, action):
    name, gcode, letters, d, inside, world = action

    def prep(I, st, H, S):
        st.restrict(('fld', S_OID, '_exclusionEnabled'), frozenset([ts.enabled]))
        st.restrict(('fld', S_OID, 'excluding'), frozenset([ts.excluding]))
        st.restrict(('null', S_OID, 'enteringExcludedRegionGcode'), frozenset([True]))
        st.restrict(('null', S_OID, 'exitingExcludedRegionGcode'), frozenset([True]))
        st.maps[S_OID + '.pendingCommands'] = ()
        st.heap[(E_OID, 'current')] = Num(E0)
        st.heap[(E_OID, 'offset')] = Num.const(0)
        st.heap[(E_OID, 'homeOffset')] = Num.const(0)
        st.heap[(E_OID, 'unitMultiplier')] = Num.const(1)
        st.restrict(('fld', E_OID, 'absoluteMode'), frozenset([True]))
        st.heap[(S_OID, 'feedRateUnitMultiplier')] = Num.const(1)
        I.symbol('A', frozenset([1]))
        I.symbol('P', frozenset([1]))
        if ts.lr is None:
            st.heap[(S_OID, 'lastRetraction')] = NONE
        else:
            owed, comb, fw, amt = ts.lr
            st.cls[LR] = 'RetractionState'
            st.heap[(S_OID, 'lastRetraction')] = Obj(LR)
            st.heap[(LR, 'recoverExcluded')] = owed
            st.heap[(LR, 'allowCombine')] = comb
            st.heap[(LR, 'firmwareRetract')] = fw
            st.heap[(LR, 'extrusionAmount')] = NONE if fw else Num(A * Poly.const(amt))
            st.heap[(LR, 'feedRate')] = NONE if fw else I.symbol('LRF')
            st.heap[(LR, 'originalCommand')] = SStr('RETRACTCMD', nonempty=True)
        for L in 'XYZEFRIJPLS':
            st.restrict(('param', CMDKEY, L), frozenset(['V' if L in letters else 'A']))
        st.restrict(('param', CMDKEY, '?'), frozenset(['A']))
        if 'E' in letters:
            # sign of deltaE = p:E - E0 is the sign of the file's delta
            sg = 1 if d == 'P' or d > 0 else (-1 if d < 0 else 0)
            from .absint import SIGNS
            p = Poly.sym('p:E') - E0
            I.symbol('p:E')
            I.symbol('E0')
            unit, s0 = I.clear_denominators(st, p).canon()
            st.dom[('sgn', unit.key())] = frozenset([sg * s0])
    return prep


def subst(p, d):
    """replace the E word of the command by the file's target E0 + delta"""
    if 'p:E' in p.symbols():
        return p.subst('p:E', E0 + delta_poly(d))
    return p


class Ghost(object):
    """printer side: off = printer E register - file E ('*' when it involves arbitrary print amounts),
    ret = physically retracted length in units of A, fw = firmware retraction depth"""
    __slots__ = ('off', 'ret', 'fw')

    def __init__(self, off=None, ret=0, fw=0):
        self.off = Poly() if off is None else off
        self.ret = ret
        self.fw = fw

    def key(self):
        return ('*' if self.off == '*' else self.off.key(), self.ret, self.fw)

    def copy(self):
        return Ghost(self.off, self.ret, self.fw)

    def __repr__(self):
        return 'E-offset=%s retracted=%sxA fw-depth=%s' % ('?' if self.off == '*' else repr(self.off), self.ret, self.fw)


def units_of_A(p):
    """p == k*A with rational k -> k, else None"""
    if p.is_zero():
        return Fraction(0)
    if len(p.t) == 1:
        (m, c), = p.t.items()
        if m == (('A', 1),):
            return c
    return None


class Transition(object):
    def __init__(self, action, pre, path, facts, post, outputs, I):
        self.action = action
        self.pre = pre
        self.path = path
        self.facts = facts
        self.post = post
        self.outputs = outputs      # list of ('cmd',) ('g92', poly) ('g1', poly) ('fw', +1/-1, params) ('script', tag) ('move', skel)
        self.func = None

    def describe(self):
        outs = []
        for o in self.outputs:
            if o[0] in ('g92', 'g1'):
                outs.append('%s E=%r' % (o[0].upper(), o[1]))
            elif o[0] == 'fw':
                outs.append('G10' if o[1] > 0 else 'G11')
            else:
                outs.append(o[0] if len(o) == 1 else '%s:%s' % (o[0], o[1]))
        return '%s in [%r] -> [%s] => [%r]' % (self.action[0], self.pre, ', '.join(outs) if outs else ('forward' if self.facts.kind == 'none' else 'suppress'), self.post)


def read_outputs(I, p, f, d):
    outs = []
    if f.kind == 'none':
        return [('cmd',)] if not p.entry.endswith('Exclusion') else []
    if f.kind != 'list':
        return []
    for e in f.elems:
        alts = live_alts(p.st, e)
        if len(alts) != 1:
            # alternatives that only differ in the firmware parameter text ("G10" / "G10 <params>")
            kinds = set(classify(a).split(':', 1)[1].split(' ')[0] for a in alts)
            if len(kinds) != 1:
                raise AnalysisError('ambiguous output element %r' % (alts,))
            alts = sorted(alts, key=lambda x: isinstance(x, Str))
        a = alts[0]
        k = classify(a)
        if k == 'CMD':
            outs.append(('cmd',))
        elif k.startswith('tmpl:G92 E'):
            v = live_alts(p.st, a.args()[0][1])
            if len(v) != 1 or not isinstance(v[0], Num):
                raise AnalysisError('G92 E argument %r' % (v,))
            outs.append(('g92', subst(v[0].p, d) - E0))          # relative to the file's E before the command
        elif k.startswith('tmpl:G1 ') and 'E' in template_letters(a.skeleton()):
            letters = template_letters(a.skeleton())
            if set(letters) - {'E', 'F'}:
                outs.append(('move', a.skeleton()))
                continue
            ev = [x[1] for x, l in zip(a.args(), letters) if l == 'E'][0]
            v = live_alts(p.st, ev)
            if len(v) != 1 or not isinstance(v[0], Num):
                raise AnalysisError('G1 E argument %r' % (v,))
            outs.append(('g1', subst(v[0].p, d) - E0))
        elif k.startswith('tmpl:G10') or k == 'lit:G10':
            outs.append(('fw', +1, params_source(a)))
        elif k.startswith('tmpl:G11') or k == 'lit:G11':
            outs.append(('fw', -1, params_source(a)))
        elif k.startswith('tmpl:G0 '):
            outs.append(('move', a.skeleton()))
        elif k.startswith('star:'):
            outs.append(('script', k[5:]))
        else:
            outs.append(('other', k))
    return outs


def params_source(a):
    """where the parameter text of a generated firmware command comes from"""
    if isinstance(a, Str):
        return 'none'
    for part in a.parts:
        if not isinstance(part, str):
            v = part[1]
            if isinstance(v, SStr):
                return v.tag
    return '?'


def post_typestate(I, p, f, d, pre):
    exc = f.post_excluding()
    if exc is None:
        exc = pre.excluding
    alts = f.final(S_OID, 'lastRetraction')
    if len(alts) != 1:
        raise AnalysisError('lastRetraction after the step: %r' % (alts,))
    o = alts[0]
    en = f.final(S_OID, '_exclusionEnabled')
    enabled = en[0] if len(en) == 1 and en[0] in (True, False) else pre.enabled
    if o is NONE:
        return TS(exc, None, enabled)
    if not isinstance(o, Obj):
        raise AnalysisError('the retraction record stored by this step is not an object created on the path but %r '
                            '(taken from a cache or another long-lived container?)' % (o,))
    vals = []
    for attr in ('recoverExcluded', 'allowCombine', 'firmwareRetract'):
        x = live_alts(p.st, p.st.heap.get((o.oid, attr)))
        if len(x) != 1 or x[0] not in (True, False):
            raise AnalysisError('retraction flag %s = %r' % (attr, x))
        vals.append(x[0])
    amt = None
    if not vals[2]:
        x = live_alts(p.st, p.st.heap.get((o.oid, 'extrusionAmount')))
        if len(x) != 1 or not isinstance(x[0], Num):
            raise AnalysisError('extrusionAmount %r' % (x,))
        k = units_of_A(subst(x[0].p, d))
        if k is None:
            amt = '?'
        else:
            amt = k
    return TS(exc, (vals[0], vals[1], vals[2], amt), enabled)


class Machine(object):
    def __init__(self, model, unroll=1):
        self.model = model
        self.I = make_interp(model, unroll=unroll)
        self.cache = {}
        self.transitions = 0

    def step(self, ts, action):
        key = (ts.key(), action[0])
        if key in self.cache:
            return self.cache[key]
        name, gcode, letters, d, inside, world = action
        from .entries import run_gcode, run_state_method
        if gcode in ('@disable', '@enable'):
            meth = 'disableExclusion' if gcode == '@disable' else 'enableExclusion'
            pp = prep_for(ts, action)
            paths = run_state_method(self.I, meth, [SStr('ATCMD', nonempty=True)], prep=pp)
        else:
            paths = run_gcode(self.I, gcode, prep=prep_for(ts, action))
        out = []
        for p in paths:
            f = Facts(p, self.I)
            if inside is not None and ('ExcludeRegionState', 'processLinearMoves') in f.calls:
                if f.any_excluded != inside:
                    continue
            if f.raised:
                out.append(('raise', p, f))
                continue
            try:
                outs = read_outputs(self.I, p, f, d)
                post = post_typestate(self.I, p, f, d, ts)
            except AnalysisError as ex:
                out.append(('error', str(ex), f))
                continue
            out.append(('ok', Transition(action, ts, p, f, post, outs, self.I)))
        # identical transitions (paths that differ in irrelevant decisions) are merged
        seen = {}
        res = []
        for item in out:
            if item[0] == 'ok':
                t = item[1]
                k = (t.post.key(), tuple((o[0],) + tuple(repr(x) for x in o[1:]) for o in t.outputs))
                if k in seen:
                    continue
                seen[k] = True
            res.append(item)
        self.cache[key] = res
        self.transitions += len(res)
        return res


def apply_outputs(t, g, df, d, world):
    """run the outputs of a transition on the ghost printer; returns (ghost', events) where events are
    ('forward-extrude', off, ret, fw) / ('bad-generated', text) / ('over-retract', ret) ..."""
    g = g.copy()
    events = []
    has_e = d != 0
    target = delta_poly(d) if has_e else Poly()
    for o in t.outputs:
        if o[0] == 'cmd':
            if t.action[1] == 'G10':
                g.fw += 1
                continue
            if t.action[1] == 'G11':
                g.fw -= 1
                events.append(('fw-recover-forwarded', g.fw))
                continue
            if not has_e:
                continue
            if g.off == '*':
                events.append(('forward-unsynced', d))
                g.off = Poly()
                continue
            delta = target - g.off          # filament motion caused by the forwarded command
            if d == 'P':
                events.append(('forward-extrude', g.off, g.ret, g.fw))
                g.off = target
                continue
            k = units_of_A(delta)
            if k is None:
                events.append(('forward-unsynced', d))
            else:
                move_filament(g, k, events)
            g.off = target
        elif o[0] == 'g92':
            g.off = o[1]
        elif o[0] == 'g1':
            if g.off == '*':
                events.append(('bad-generated', 'generated G1 E while the E register is not synchronised'))
                g.off = o[1]
                continue
            k = units_of_A(o[1] - g.off)
            if k is None:
                events.append(('bad-generated', 'generated G1 E moves the filament by %r, not a retraction length' % (o[1] - g.off,)))
            else:
                move_filament(g, k, events)
            g.off = o[1]
        elif o[0] == 'fw':
            g.fw += o[1]
            if o[2] not in ('none',) and 'RETRACTCMD' not in o[2] and 'CMD' not in o[2]:
                events.append(('fw-params', o[2]))
            if o[2] not in ('none',) and not o[2].startswith('resub('):
                events.append(('fw-params', o[2]))
    # the file's own E advances whether or not the command was forwarded
    if has_e and g.off != '*':
        g.off = g.off - target
        if 'P' in g.off.symbols():
            g.off = '*'
    return g, events


def move_filament(g, k, events):
    if k < 0:
        g.ret += -k
    elif k > 0:
        rec = min(g.ret, k)
        g.ret -= rec
        if k - rec > 0:
            events.append(('generated-extrusion', k - rec))


def explore(ctx_rules, model, tier='quick', max_states=4000):
    """BFS over the product machine for both worlds; returns list of violation dicts and statistics"""
    M = Machine(model, unroll=1)
    violations = []
    stats = {'states': 0, 'transitions': 0, 'handler_transitions': 0, 'samples': []}
    for world in ('e', 'fw'):
        start = (TS(False, None), Ghost(), 0)
        seen = {}
        work = [(start, ())]
        while work:
            (ts, g, df), trace = work.pop(0)
            key = (ts.key(), g.key(), df)
            if key in seen:
                continue
            seen[key] = trace
            if len(seen) > max_states:
                raise AnalysisError('retraction machine: state space exceeds %d states' % max_states)
            for action in ACTIONS:
                name, gcode, letters, d, inside, w = action
                if w not in ('both', world):
                    continue
                # the environment: matched cycles
                if name in ('retract', 'wipe-out', 'wipe-in', 'fw-retract') and df != 0:
                    continue
                if name in ('recover', 'fw-recover') and df != 1:
                    continue
                if name in ('print-out', 'print-in') and df != 0:
                    continue
                if inside is False and False:
                    continue
                df2 = 1 if name in ('retract', 'wipe-out', 'wipe-in', 'fw-retract') else (0 if name in ('recover', 'fw-recover') else df)
                for item in M.step(ts, action):
                    stats['transitions'] += 1
                    step_trace = trace + (name,)
                    if item[0] == 'raise':
                        violations.append({'kind': 'raise', 'trace': step_trace, 'text': repr(item[1].ret), 'func': (item[1].ret.where or ('?', 0))[0],
                                           'construct': 'raises %s during %s' % (item[1].ret.exc, name)})
                        continue
                    if item[0] == 'error':
                        violations.append({'kind': 'unreadable', 'trace': step_trace, 'text': item[1], 'func': 'GcodeHandlers.handleGcode',
                                           'construct': 'output not understood during %s: %s' % (name, item[1][:60])})
                        continue
                    t = item[1]
                    g2, events = apply_outputs(t, g, df, d, world)
                    bad = check_invariants(t, g, g2, df, df2, events, world, name)
                    for b in bad:
                        b['trace'] = step_trace
                        b['transition'] = t.describe()
                        violations.append(b)
                    if bad:
                        # keep exploring from a consistent printer state so that one defect does not mask another
                        g2 = Ghost(Poly() if not t.post.excluding else g2.off, df2 if world == 'e' else 0, df2 if world == 'fw' else 0)
                        if t.post.excluding:
                            g2.ret = min(g2.ret, 1)
                    if len(stats['samples']) < 6 and t.outputs and t.outputs != [('cmd',)]:
                        stats['samples'].append({'trace': list(step_trace), 'transition': t.describe(), 'printer': repr(g2)})
                    work.append(((t.post, g2, df2), step_trace))
        stats['states'] += len(seen)
    stats['handler_transitions'] = M.transitions
    return violations, stats


def check_invariants(t, g, g2, df, df2, events, world, name):
    bad = []
    pre, post = t.pre, t.post
    where = 'ExcludeRegionState.recordRetraction' if name in ('retract', 'wipe-in', 'wipe-out', 'fw-retract') else \
        'ExcludeRegionState.recoverRetractionIfNeeded'
    for ev in events:
        if ev[0] == 'forward-extrude':
            off, ret, fw = ev[1], ev[2], ev[3]
            if off != Poly():
                bad.append({'prop': 'C04', 'kind': 'extrusion-lost', 'func': 'ExcludeRegionState._recoverRetraction',
                            'construct': 'forwarded extruding move while the printer E register is off by %r' % (off,),
                            'text': 'the forwarded printing move pushes a different filament length than the file specifies '
                                    '(the E register was already moved to the command\'s own target)'})
            if ret != 0 or fw != 0:
                bad.append({'prop': 'C05', 'kind': 'print-while-retracted', 'func': where,
                            'construct': 'forwarded extruding move while the filament is physically retracted (%sxA, firmware depth %s)' % (ret, fw),
                            'text': 'printing resumes although a retraction skipped inside a region was not recovered'})
        elif ev[0] == 'forward-unsynced':
            bad.append({'prop': 'C04', 'kind': 'forward-unsynced', 'func': where,
                        'construct': 'command with an E word forwarded while the printer E register is not synchronised',
                        'text': 'an E move is forwarded although suppressed extrusion was not compensated by G92 E'})
        elif ev[0] == 'bad-generated':
            bad.append({'prop': 'C05', 'kind': 'bad-generated', 'func': 'RetractionState._addCommands', 'construct': ev[1], 'text': ev[1]})
        elif ev[0] == 'generated-extrusion':
            bad.append({'prop': 'C04', 'kind': 'generated-extrusion', 'func': 'RetractionState._addCommands',
                        'construct': 'generated recovery pushes %sxA of filament beyond the retracted length' % ev[1],
                        'text': 'a generated recovery extrudes although nothing (or less) was retracted'})
        elif ev[0] == 'fw-params':
            bad.append({'prop': 'C05', 'kind': 'fw-params', 'func': 'RetractionState._addCommands',
                        'construct': 'firmware retract/recover parameters taken from %s' % ev[1],
                        'text': 'generated G10/G11 must carry the parameters of the original retraction command'})
    limit = 1
    if world == 'e':
        if g2.ret > limit:
            bad.append({'prop': 'C05', 'kind': 'over-retract', 'func': where,
                        'construct': 'filament retracted %sxA, deeper than the deepest retraction the file requested' % g2.ret,
                        'text': 'a retraction is executed twice'})
        if g2.ret < df2 and not post.excluding:
            bad.append({'prop': 'C05', 'kind': 'under-retract', 'func': where,
                        'construct': 'outside a region the filament is retracted %sxA but the file assumes %s' % (g2.ret, df2),
                        'text': 'the file is retracted but the printer is not'})
        if not post.excluding and g2.off != Poly():
            bad.append({'prop': 'C04', 'kind': 'offset-outside', 'func': where,
                        'construct': 'outside a region the printer E register differs from the file by %s' % ('?' if g2.off == '*' else repr(g2.off)),
                        'text': 'a command with an E word was dropped (or E generated) outside a region without re-synchronising '
                                'with G92 E: later E moves push the wrong filament length'})
        if not post.excluding and g2.ret != df2 and not (post.lr is not None and post.lr[0]):
            bad.append({'prop': 'C05', 'kind': 'depth-not-owed', 'func': where,
                        'construct': 'outside a region the physical retraction (%sxA) differs from the file (%s) and no recovery is owed' % (g2.ret, df2),
                        'text': 'retraction depth out of step with nothing recorded to repair it'})
    else:
        if g2.fw > limit or g2.fw < 0:
            bad.append({'prop': 'C05', 'kind': 'fw-parity', 'func': where,
                        'construct': 'firmware retraction depth %s' % g2.fw,
                        'text': 'G10/G11 parity broken: a firmware retraction is doubled or a recovery sent without retraction'})
        if g2.fw < df2 and not post.excluding:
            bad.append({'prop': 'C05', 'kind': 'fw-under', 'func': where,
                        'construct': 'outside a region firmware depth %s but the file assumes %s' % (g2.fw, df2),
                        'text': 'the file is retracted but the printer is not'})
        if not post.excluding and g2.fw != df2 and not (post.lr is not None and post.lr[0]):
            bad.append({'prop': 'C05', 'kind': 'fw-not-owed', 'func': where,
                        'construct': 'outside a region firmware depth %s differs from the file (%s) and no recovery is owed' % (g2.fw, df2),
                        'text': 'retraction depth out of step with nothing recorded to repair it'})
        if not post.excluding and g2.off != Poly():
            bad.append({'prop': 'C04', 'kind': 'offset-outside', 'func': 'ExcludeRegionState.exitExcludedRegion',
                        'construct': 'outside a region the printer E register differs from the file by %s' % ('?' if g2.off == '*' else repr(g2.off)),
                        'text': 'suppressed extrusion not compensated'})
    # inside an episode only retractions may move the filament
    if post.excluding and pre.excluding:
        for o in t.outputs:
            if o[0] == 'cmd' and name not in ('fw-retract',):
                bad.append({'prop': 'C04', 'kind': 'forward-inside', 'func': where,
                            'construct': '%s forwarded inside an episode' % name, 'text': 'a command is forwarded while excluding'})
    return bad
