"""C10 - every print starts from a clean tracking state."""
import ast

from .handlers import run_path_rules
from .entries import make_interp, new_plugin_state, new_handlers_state, Path, gcodes_to_analyse, FIELDSPEC
from .pathfacts import Facts, live_alts, S_OID
from .plugin import effects, region_mutations
from .values import NONE, Num, Str, SStr, Cat, Obj, TupleV, Opaque, Choice
from .absint import Raised
from .model import AnalysisError
from . import census

PROP = 'C10'
CONFIG = ('g90InfluencesExtruder', 'enteringExcludedRegionGcode', 'exitingExcludedRegionGcode', 'extendedExcludeGcodes',
          'atCommandActions', '_logger')
KEPT = ('excludedRegions',)            # by design: regions survive a print start
SCRATCH = ('gcodeParser',)             # re-initialised by every parse/buildCommand (C18.R5)


def declare(c):
    c.rule('C10.R1', 'every state field a hook can change is re-assigned a fresh value by resetState on all paths', floor=8)
    c.rule('C10.R2', 'print-started calls resetState (regions kept) before the job is marked active', floor=1)
    c.rule('C10.R4', 'no module-global or class-level state is written by code in reach of the hooks', floor=1)
    c.rule('C10.R5', 'configuration fields are written only by the settings handler / constructor', floor=5)


def owner_field(oid):
    """state field owning the object a write went to ('H.state.position.X_AXIS' -> 'position')"""
    if oid == S_OID:
        return None
    if oid.startswith(S_OID + '.'):
        return oid[len(S_OID) + 1:].split('.')[0]
    return None


def written_fields(col, gcode, paths, I):
    """worker side: the set of state fields changed by the handler paths"""
    declare(col)
    W = set()
    for p in paths:
        alloc = {}
        for e in p.st.trace:
            if e[0] == 'write':
                cls, attr, val, oid = e[1], e[2], e[3], e[4]
                if cls == 'ExcludeRegionState' and oid == S_OID:
                    W.add(attr)
                else:
                    o = owner_field(oid)
                    if o:
                        W.add(o)
                    elif cls not in ('GcodeParser',) and ('fresh', oid) not in p.st.flags:
                        W.add('?%s.%s@%s' % (cls, attr, oid))
            elif e[0].startswith('seq-') or e[0].startswith('map-'):
                o = owner_field(str(e[1]))
                if o:
                    W.add(o)
            elif e[0] == 'classattr-write':
                col.report('C10.R4', e[-1], '%s.%s = ...' % (e[1], e[2]), 'class-level state written while filtering')
    col.extra['W'] = sorted(W)
    col.instance('C10.R1', (gcode, tuple(sorted(W))))


def reset_rule(ctx, I, W):
    st, H, S = new_handlers_state(I)
    results = {}
    for clear in (False, True):
        st, H, S = new_handlers_state(I)
        res = I.run_method(st, 'ExcludeRegionState', 'resetState', S, [clear] if clear else [])
        for (s, v) in res:
            if isinstance(v, Raised):
                ctx.report('C10.R1', 'ExcludeRegionState.resetState', 'raises', repr(v))
                continue
            fresh = {}
            for e in s.trace:
                if e[0] == 'write' and e[1] == 'ExcludeRegionState' and e[4] == S_OID:
                    val = e[3]
                    ok = False
                    if val is NONE or val is True or val is False or (isinstance(val, Num) and val.is_const()):
                        ok = True
                    elif isinstance(val, Obj) and ('fresh', val.oid) in s.flags:
                        ok = True
                    elif isinstance(val, Obj) and val.oid in s.seqs and s.seqs[val.oid] == () and val.oid.startswith('list@'):
                        ok = True
                    fresh[e[2]] = ok
            results.setdefault(clear, []).append(fresh)
    R = None
    for fresh in results.get(False, []):
        names = set(k for k, ok in fresh.items() if ok)
        R = names if R is None else (R & names)
    if R is None:
        raise AnalysisError('resetState has no normal path')
    for fld in sorted(W):
        ctx.instance('C10.R1', ('field', fld))
        if fld.startswith('?'):
            ctx.report('C10.R1', 'GcodeHandlers.handleGcode', 'write to %s' % fld[1:],
                       'a hook writes an object that is neither owned by the state nor created on the path')
            continue
        if fld in KEPT or fld in SCRATCH:
            continue
        if fld in CONFIG:
            ctx.report('C10.R5', 'GcodeHandlers.handleGcode', 'hook writes configuration field %s' % fld,
                       'a configuration field is changed while filtering; resetState does not restore it')
            continue
        if fld not in R:
            ctx.report('C10.R1', 'ExcludeRegionState.resetState', 'field %s not reset' % fld,
                       'the hooks can change state.%s but resetState does not re-initialise it with a fresh value on every '
                       'path: a new print would inherit it from the previous one' % fld)
    # any per-print field initialised by the constructor only
    init_fields = set()
    for (q, val, line, mod, aug) in [x for a in _all_attrs(ctx.model, 'ExcludeRegionState') for x in census.attr_stores(ctx.model, a)]:
        pass
    ctx.extra['reset_fields'] = sorted(R)
    ctx.extra['hook_written_fields'] = sorted(W)
    ctx.sample({'rule': 'C10.R1', 'written_by_hooks': sorted(W), 'reset_fresh': sorted(R)})
    return R


def _all_attrs(model, cls):
    ci = model.classes[cls]
    out = set()
    for fn in list(ci.methods.values()):
        for n in ast.walk(fn):
            if isinstance(n, ast.Attribute) and isinstance(n.value, ast.Name) and n.value.id == 'self' and isinstance(n.ctx, ast.Store):
                out.add(n.attr)
    return sorted(out)


def started_rule(ctx, I):
    st, P, H, S = new_plugin_state(I)
    res = I.run_method(st, 'ExcludeRegionPlugin', 'on_event', P, [Str('Events.PRINT_STARTED'), Opaque('payload')])
    for (s, v) in res:
        ctx.instance('C10.R2', len(s.trace))
        calls = [i for i, e in enumerate(s.trace) if e[0] == 'call' and e[2] == 'resetState']
        act = [i for i, e in enumerate(s.trace) if e[0] == 'write' and e[2] == '_activePrintJob']
        if not calls:
            ctx.report('C10.R2', 'ExcludeRegionPlugin.on_event', 'PRINT_STARTED without resetState',
                       'a new print starts without resetting the tracking state')
        elif not act or act[0] < calls[0]:
            ctx.report('C10.R2', 'ExcludeRegionPlugin.on_event', 'PRINT_STARTED ordering',
                       'the job is marked active before (or without) the state reset')
        p = Path('on_event', s, v, {})
        if region_mutations(p):
            ctx.report('C10.R2', 'ExcludeRegionPlugin.on_event', 'PRINT_STARTED clears regions',
                       'starting a print must keep the defined regions')
        # the objects installed by the reset must not alias the previous ones
        for e in s.trace:
            if e[0] == 'write' and e[1] == 'ExcludeRegionState' and isinstance(e[3], Obj) and \
                    not (('fresh', e[3].oid) in s.flags or e[3].oid.startswith('list@')):
                ctx.report('C10.R1', 'ExcludeRegionState.resetState', 'state.%s aliases an existing object' % e[2],
                           'resetState installs an existing object (%s) instead of a fresh one' % e[3].oid)


def globals_rule(ctx):
    m = ctx.model
    n = 0
    for cname, fn, mod in census.functions(m):
        for node in ast.walk(fn):
            if isinstance(node, (ast.Global, ast.Nonlocal)):
                n += 1
                q = '%s.%s' % (cname, fn.name) if cname else fn.name
                ctx.instance('C10.R4', (q, tuple(node.names)))
                if q != '__plugin_load__':
                    ctx.report('C10.R4', q, 'global %s' % ','.join(node.names),
                               'module-global state is written outside plugin loading', line=node.lineno)
            if isinstance(node, (ast.Assign, ast.AugAssign)):
                tgts = node.targets if isinstance(node, ast.Assign) else [node.target]
                for t in tgts:
                    if isinstance(t, ast.Attribute) and isinstance(t.value, ast.Name) and t.value.id in m.classes:
                        q = '%s.%s' % (cname, fn.name) if cname else fn.name
                        ctx.instance('C10.R4', (q, ast.unparse(t)))
                        ctx.report('C10.R4', q, '%s = ...' % ast.unparse(t), 'class-level state is written at run time',
                                   line=node.lineno)
    # module-level / class-level containers that some function may change at run time survive every reset
    for (mod, name), (kind, q, line, what) in sorted(census.mutable_tables(m).items()):
        ctx.instance('C10.R4', ('table', mod, name))
        ctx.report('C10.R4', q, 'module-level table %s.%s %s (%s)' % (mod, name, 'is changed' if kind == 'write' else 'escapes', what),
                   'a container defined at module or class level is %s at run time: it is shared by every plugin instance and '
                   'print and no reset re-initialises it, so what a print does can depend on the prints before it'
                   % ('written' if kind == 'write' else 'handed to code that may write it'), line=line)
    ctx.instance('C10.R4', ('functions scanned', m.nfuncs))


def config_rule(ctx):
    m = ctx.model
    allowed = ('ExcludeRegionState.__init__', 'ExcludeRegionPlugin._handleSettingsUpdated')
    for fld in CONFIG[:-1]:
        for (q, val, line, mod, aug) in census.attr_stores(m, fld):
            ctx.instance('C10.R5', (q, fld))
            if not census.only_reached_through(m, q, allowed):
                ctx.report('C10.R5', q, '%s = ...' % fld, 'configuration is written outside the settings handler', line=line)


def run(ctx, tier):
    declare(ctx)
    gcodes = gcodes_to_analyse(ctx.model)
    run_path_rules(ctx, __name__, 'written_fields', gcodes, unroll=1)
    W = set(ctx.extra.get('W', []))
    # merge_collector keeps only the first 'W'; collect all from notes instead
    I = make_interp(ctx.model, unroll=1)
    # at-command and script hook effects
    st, H, S = new_handlers_state(I)
    for (s, v) in I.run_method(st, 'GcodeHandlers', 'handleAtCommand', H, [Opaque('comm'), SStr('ATCMD', nonempty=True), SStr('PARAMS')]):
        for e in s.trace:
            if e[0] == 'write' and e[1] == 'ExcludeRegionState' and e[4] == S_OID:
                W.add(e[2])
            elif e[0] == 'write':
                o = owner_field(e[4])
                if o:
                    W.add(o)
    W |= set(ctx.extra.get('W_all', []))
    reset_rule(ctx, I, W)
    started_rule(ctx, I)
    globals_rule(ctx)
    config_rule(ctx)
    ctx.assume('state outside the plugin (OctoPrint, the printer) is outside the property')
