"""C06 - deferred G-codes and enter/exit scripts: exactly once per exclusion episode."""
import ast

from .handlers import run_path_rules
from .entries import make_interp, run_state_method, run_plugin_method, new_handlers_state, Path
from .pathfacts import Facts, live_alts, classify, S_OID
from .values import NONE, Num, Str, SStr, Cat, Obj, TupleV, Star, Choice, Opaque
from .absint import Raised
from .model import AnalysisError
from . import census

PROP = 'C06'
MUTATORS = ('pop', 'clear', 'update', 'setdefault', 'popitem', 'move_to_end', '__setitem__', '__delitem__')
PEND = S_OID + '.pendingCommands'


def declare(c):
    c.rule('C06.R1', 'pendingCommands is filled only by _processExtendedGcodeEntry, drained only by '
                     '_processPendingCommands and replaced only by resetState', floor=4)
    c.rule('C06.R2', 'the drain emits every pending entry once, in order, and leaves the map empty', floor=2)
    c.rule('C06.R4', 'exit order: pending commands, exit script, re-synchronisation', floor=4)
    c.rule('C06.R5', 'the enter script is emitted first, once, exactly on the paths that open an episode', floor=4)
    c.rule('C06.R6', 'mode semantics: first keeps the first instance in place, last/merge move the entry to the end, '
                     'merge updates per parameter letter, exclude stores nothing; every mode returns IGNORE', floor=8)
    c.rule('C06.R7', 'dispatch: a code is deferred exactly when an episode is open and it is configured; the mode applied is '
                     'the configured one; outside an episode configured codes pass through untouched', floor=3)
    c.rule('C06.R8', 'configured script lists are never returned or mutated (always copied into a fresh list)', floor=4)
    c.rule('C06.R10', 'an episode ended by a disable @-command: whatever else matches the same @-command (a second disable, an '
                      'enable), the exit sequence - deferred commands, exit script, re-synchronisation - is sent through the comm '
                      'object exactly once and in order; nothing is sent when no episode is open', floor=20)
    c.rule('C06.R9', '_splitGcodeScript returns None or a non-empty list of non-empty lines', floor=2)


def census_rule(ctx):
    m = ctx.model
    for (q, val, line, mod, aug) in census.attr_stores(m, 'pendingCommands'):
        ctx.instance('C06.R1', ('store', q))
        if not census.only_reached_through(m, q, ('ExcludeRegionState.resetState',)):
            ctx.report('C06.R1', q, 'pendingCommands = ...', 'the pending map is replaced outside resetState',
                       file=m.relpath(m.paths[mod]), line=line)
    allowed = {'_processExtendedGcodeEntry': ('pop', '[]=', 'setdefault'), '_processPendingCommands': ('clear',)}
    for (q, meth, line) in census.method_calls_on_attr(m, 'pendingCommands', MUTATORS):
        ctx.instance('C06.R1', ('mutate', q, meth))
        ok = False
        for owner, meths in allowed.items():
            if meth in meths and census.only_reached_through(m, q, ('ExcludeRegionState.' + owner,)):
                ok = True
        if not ok:
            ctx.report('C06.R1', q, 'pendingCommands.%s' % meth,
                       'the pending map is mutated outside its owner functions', line=line)


def drain_rule(ctx, I):
    def prep(I, st, H, S):
        oid = PEND
        st.cls['argsmap'] = 'dict'
        st.maps['argsmap'] = (('kv', Str('S'), Num.const(5.0)),)
        st.maps[oid] = (('kv', Str('M117'), SStr('FIRSTCMD', nonempty=True)), ('kv', Str('M204'), Obj('argsmap')),
                        ('kv', Str('M73'), SStr('LASTCMD', nonempty=True)))
    paths = run_state_method(I, '_processPendingCommands', [], prep=prep)
    for p in paths:
        f = Facts(p, I)
        ctx.instance('C06.R2', f.describe())
        if f.kind != 'list':
            ctx.report('C06.R2', 'ExcludeRegionState._processPendingCommands', 'drain -> %s' % f.describe(),
                       'the drain does not return a command list')
            continue
        kinds = [sorted(set(classify(a) for a in live_alts(p.st, e))) for e in f.elems]
        flat = [k[0] if len(k) == 1 else '|'.join(k) for k in kinds]
        head = flat[:3]
        ok = (len(head) == 3 and head[0] == 'sstr:FIRSTCMD' and head[1] == 'built' and head[2] == 'sstr:LASTCMD')
        rest = flat[3:]
        if not ok or any(not r.startswith('star:exitScript') for r in rest) or len(rest) > 1:
            ctx.report('C06.R2', 'ExcludeRegionState._processPendingCommands', 'drain -> [%s]' % ', '.join(flat),
                       'the drain must emit each pending entry exactly once in insertion order, then the exit script')
        if p.st.maps.get(PEND) != ():
            ctx.report('C06.R2', 'ExcludeRegionState._processPendingCommands', 'map not cleared',
                       'pending entries survive the drain and would be delivered again in a later episode')
        # the merged entry is rendered from its own letter/value map
        for e in p.st.trace:
            if e[0] == 'buildCommand':
                g, kw = e[2], e[3]
                if not (isinstance(g, Str) and g.s == 'M204') or kw.get('**') is not None and False:
                    ctx.report('C06.R2', 'ExcludeRegionState._processPendingCommands', 'merged command code',
                               'merged command is built for %r instead of its own code' % (g,))
                if 'S' not in kw:
                    ctx.report('C06.R2', 'ExcludeRegionState._processPendingCommands', 'merged command parameters',
                               'merged command is not built from the recorded parameter map')
        ctx.sample({'rule': 'C06.R2', 'drain': flat})


def exit_order_rule(ctx, I):
    paths = run_state_method(I, 'exitExcludedRegion', [SStr('CMD', nonempty=True)], {('fld', S_OID, 'excluding'): [True]})
    for p in paths:
        f = Facts(p, I)
        if f.kind != 'list':
            continue
        ctx.instance('C06.R4', f.describe())
        flat = [sorted(set(classify(a) for a in live_alts(p.st, e)))[0] for e in f.elems]

        def pos(pred):
            return [i for i, k in enumerate(flat) if pred(k)]
        pend = pos(lambda k: k.startswith('star:each(pending') or k == 'built' or k.startswith('star:pending'))
        script = pos(lambda k: k.startswith('star:exitScript'))
        sync = pos(lambda k: k.startswith('tmpl:'))
        script_null = p.dec(('null', S_OID, 'exitingExcludedRegionGcode'))
        pend_nonempty = p.dec(('nonempty', ('pending',)))
        if pend_nonempty is True and len(pend) != 1:
            ctx.report('C06.R4', 'ExcludeRegionState.exitExcludedRegion', 'pending not delivered once',
                       'pending commands appear %d times in the exit sequence %s' % (len(pend), flat))
        if script_null is False and len(script) != 1:
            ctx.report('C06.R4', 'ExcludeRegionState.exitExcludedRegion', 'exit script not delivered once',
                       'the exit script appears %d times in the exit sequence %s' % (len(script), flat))
        if script_null is True and script:
            ctx.report('C06.R4', 'ExcludeRegionState.exitExcludedRegion', 'exit script from nowhere', str(flat))
        if (pend and script and max(pend) > min(script)) or (script and sync and max(script) > min(sync)) or \
                (pend and sync and max(pend) > min(sync)):
            ctx.report('C06.R4', 'ExcludeRegionState.exitExcludedRegion', 'exit order',
                       'expected pending < exit script < re-synchronisation, got %s' % flat)
        if p.st.maps.get(PEND) not in ((),) and pend_nonempty is not False:
            ctx.report('C06.R4', 'ExcludeRegionState.exitExcludedRegion', 'map not cleared at exit',
                       'pending entries survive the end of the episode')


def enter_rule(ctx, I):
    paths = run_state_method(I, 'enterExcludedRegion', [SStr('CMD', nonempty=True)],
                             {('fld', S_OID, '_exclusionEnabled'): [True]})
    script_oid = S_OID + '.enteringExcludedRegionGcode'
    for p in paths:
        f = Facts(p, I)
        ctx.instance('C06.R5', (f.pre_excluding, f.describe()))
        if f.raised:
            ctx.report('C06.R5', 'ExcludeRegionState.enterExcludedRegion', 'raises', repr(p.ret))
            continue
        opened = f.pre_excluding is False and f.post_excluding() is True
        flat = [sorted(set(classify(a) for a in live_alts(p.st, e)))[0] for e in f.elems]
        n = sum(1 for k in flat if k.startswith('star:enterScript'))
        null = p.dec(('null', S_OID, 'enteringExcludedRegionGcode'))
        if opened:
            if null is False and (n != 1 or not flat[0].startswith('star:enterScript')):
                ctx.report('C06.R5', 'ExcludeRegionState.enterExcludedRegion', 'enter -> %s' % flat,
                           'the enter script must be emitted exactly once, first, when an episode opens')
            if null is True and n:
                ctx.report('C06.R5', 'ExcludeRegionState.enterExcludedRegion', 'enter script from nowhere', str(flat))
        elif n:
            ctx.report('C06.R5', 'ExcludeRegionState.enterExcludedRegion', 'enter script without opening',
                       'the enter script is emitted on a path that does not open an episode (excluding %s -> %s)'
                       % (f.pre_excluding, f.post_excluding()))
        if f.pre_excluding is False and f.post_excluding() is not True:
            ctx.report('C06.R5', 'ExcludeRegionState.enterExcludedRegion', 'episode not opened',
                       'enterExcludedRegion returns without setting excluding')
        ret = p.ret
        ctx.instance('C06.R8', ('enter', f.describe()))
        if isinstance(ret, Obj) and ret.oid == script_oid:
            ctx.report('C06.R8', 'ExcludeRegionState.enterExcludedRegion', 'returns the configured list',
                       'the configured enter script list itself is returned; callers extend returned lists, which '
                       'would grow the configured script')


def alias_rule_paths(col, gcode, paths, I):
    declare(col)
    scripts = (S_OID + '.enteringExcludedRegionGcode', S_OID + '.exitingExcludedRegionGcode')
    for p in paths:
        f = Facts(p, I)
        col.instance('C06.R8', (gcode, f.describe()))
        for e in p.st.trace:
            if e[0].startswith('seq-') and e[1] in scripts:
                col.report('C06.R8', e[-1] if isinstance(e[-1], str) else 'GcodeHandlers.handleGcode',
                           'mutation %s of a configured script list' % e[0],
                           'a configured script list is mutated while filtering; later episodes would see a '
                           'different script', detail={'entry': p.entry, 'decisions': f.decisions()})
        if isinstance(p.ret, Obj) and p.ret.oid in scripts:
            col.report('C06.R8', 'GcodeHandlers.handleGcode', 'configured script list returned',
                       'the configured script list object itself is handed to the caller')
        if gcode == 'M999':
            col.instance('C06.R7', (f.pre_excluding, f.describe()))
            cfg = [k for k in p.st.dom if k[0] == 'null' and 'cfg:extendedExcludeGcodes' in repr(k)]
            configured = None
            for k in cfg:
                configured = (p.st.dom[k] == frozenset([False]))
            mode_consulted = any(k[0] == 'valueof' and 'cfg:extendedExcludeGcodes' in repr(k) and '.mode' in repr(k) for k in p.st.dom)
            mutated = any(e[0].startswith('map-') and str(e[1]).endswith('pendingCommands') for e in p.st.trace)
            # one slot per configured code: whatever is recorded for the code is recorded under the code itself (the key
            # the configuration is looked up with) - a key derived from anything else (the sub code, the parameters) gives
            # one configured code several deferred commands
            for e in p.st.trace:
                if e[0].startswith('map-') and str(e[1]).endswith('pendingCommands'):
                    for k in live_alts(p.st, e[2]):
                        if not (isinstance(k, Str) and k.s == gcode):
                            col.report('C06.R7', e[-1] if isinstance(e[-1], str) else 'ExcludeRegionState.processExtendedGcode',
                                       'deferred command recorded under %r' % (k,),
                                       'the deferred command of a configured code is kept under a key other than the code: the '
                                       'code can then own several slots and more than one command is sent for it when the '
                                       'episode ends')
                            break
            if f.pre_excluding is not True:
                if f.kind != 'none' or mutated:
                    col.report('C06.R7', 'ExcludeRegionState.processExtendedGcode', 'outside an episode -> %s' % f.describe(),
                               'a configured code is withheld or recorded although no episode is open')
            elif configured is True:
                if f.kind != 'ignore':
                    col.report('C06.R7', 'ExcludeRegionState.processExtendedGcode', 'configured code inside an episode -> %s' % f.describe(),
                               'a code configured for deferral reaches the printer during an episode')
                if not mode_consulted and mutated:
                    col.report('C06.R7', 'ExcludeRegionState.processExtendedGcode', 'mode not taken from the configuration',
                               'the deferral mode applied is not the one configured for the code')
            elif configured is False:
                if f.kind != 'none' or mutated:
                    col.report('C06.R7', 'ExcludeRegionState.processExtendedGcode', 'unconfigured code inside an episode -> %s' % f.describe(),
                               'a code without deferral configuration must pass through')
            elif f.pre_excluding is True and f.kind != 'none':
                col.report('C06.R7', 'ExcludeRegionState.processExtendedGcode', 'configuration not consulted',
                           'a code is withheld without looking it up in the configured codes')
        # enter script only on opening paths, at most once, first
        flat = [sorted(set(classify(a) for a in live_alts(p.st, e)))[0] for e in f.elems]
        n = sum(1 for k in flat if k.startswith('star:enterScript'))
        opened = f.pre_excluding is False and f.post_excluding() is True
        if n or opened:
            col.instance('C06.R5', (gcode, f.describe()))
        if n and (not opened or n > 1 or not flat[0].startswith('star:enterScript')):
            col.report('C06.R5', 'GcodeHandlers.handleGcode', '%s -> %s' % (gcode, f.describe()),
                       'enter script emitted %d time(s) on a path with excluding %s -> %s'
                       % (n, f.pre_excluding, f.post_excluding()))
        nx = sum(1 for k in flat if k.startswith('star:exitScript'))
        closed = f.pre_excluding is True and f.post_excluding() is False
        if nx and (not closed or nx > 1):
            col.report('C06.R4', 'GcodeHandlers.handleGcode', '%s -> %s' % (gcode, f.describe()),
                       'exit script emitted %d time(s) on a path with excluding %s -> %s'
                       % (nx, f.pre_excluding, f.post_excluding()))
        if opened and p.dec(('null', S_OID, 'enteringExcludedRegionGcode')) is False and n != 1:
            col.report('C06.R5', 'GcodeHandlers.handleGcode', '%s opens without enter script' % gcode,
                       'an episode is opened but the configured enter script is not emitted: %s' % f.describe())


def modes_rule(ctx, I):
    m = ctx.model
    consts = {}
    for (mod, name), node in m.consts.items():
        if mod == 'ExcludedGcode' and name.startswith('EXCLUDE_') and isinstance(node, ast.Constant):
            consts[name] = node.value
    if len(consts) < 4:
        raise AnalysisError('anchor vanished: EXCLUDE_* mode constants (%s)' % sorted(consts))
    # the constructor's assertion accepts exactly these constants
    init = m.method('ExcludedGcode', '__init__')
    accepted = set()
    for n in ast.walk(init):
        if isinstance(n, ast.Compare) and isinstance(n.ops[0], ast.In) and isinstance(n.left, ast.Name) and n.left.id == 'mode':
            for elt in getattr(n.comparators[0], 'elts', []):
                try:
                    accepted.add(m.fold('ExcludedGcode', elt))
                except KeyError:
                    pass
    ctx.instance('C06.R6', ('accepted', tuple(sorted(accepted))))
    if accepted != set(consts.values()):
        ctx.report('C06.R6', 'ExcludedGcode.__init__', 'accepted modes %s' % sorted(accepted),
                   'the modes accepted by the configuration differ from the defined mode constants %s'
                   % sorted(consts.values()))
    expect_kind = {'exclude': 'exclude', 'first': 'first', 'last': 'last', 'merge': 'merge'}
    for mode in sorted(set(consts.values()) | accepted):
        for present in (False, True):
            def prep(I, st, H, S, present=present, mode=mode):
                st.cls['oldargs'] = 'dict'
                st.maps['oldargs'] = (('kv', Str('S'), Num.const(1.0)), ('kv', Str('P'), Num.const(2.0)))
                old = Obj('oldargs') if mode == 'merge' else SStr('OLDCMD', nonempty=True)
                items = [('kv', Str('M1'), SStr('CMD_M1', nonempty=True))]
                if present:
                    items.append(('kv', Str('M900'), old))
                items.append(('kv', Str('M2'), SStr('CMD_M2', nonempty=True)))
                st.maps[PEND] = tuple(items)
            paths = run_state_method(I, '_processExtendedGcodeEntry', [Str(mode), SStr('CMD', nonempty=True), Str('M900')],
                                     prep=prep)
            for p in paths:
                f = Facts(p, I)
                items = p.st.maps.get(PEND, ())
                keys = [it[1].s if it[0] == 'kv' and isinstance(it[1], Str) else '?' for it in items]
                ctx.instance('C06.R6', (mode, present, tuple(keys), f.describe()))
                where = 'ExcludeRegionState._processExtendedGcodeEntry'
                tag = 'mode=%s entry %s' % (mode, 'present' if present else 'absent')
                if f.kind != 'ignore':
                    ctx.report('C06.R6', where, tag + ' -> %s' % f.describe(), 'a deferred code must be withheld (IGNORE)')
                    continue
                val = None
                for it in items:
                    if it[0] == 'kv' and isinstance(it[1], Str) and it[1].s == 'M900':
                        val = it[2]
                vk = classify(live_alts(p.st, val)[0]) if val is not None and not isinstance(val, Obj) else \
                    ('map' if isinstance(val, Obj) else None)
                if mode == 'exclude':
                    want_keys = ['M1', 'M900', 'M2'] if present else ['M1', 'M2']
                    want_val = 'sstr:OLDCMD' if present else None
                elif mode == 'first':
                    want_keys = ['M1', 'M900', 'M2'] if present else ['M1', 'M2', 'M900']
                    want_val = 'sstr:OLDCMD' if present else 'CMD'
                elif mode == 'last':
                    want_keys = ['M1', 'M2', 'M900']
                    want_val = 'CMD'
                elif mode == 'merge':
                    want_keys = ['M1', 'M2', 'M900']
                    want_val = 'map'
                else:
                    continue
                if keys != want_keys or vk != want_val:
                    ctx.report('C06.R6', where, tag, 'pending map becomes %s with value %s, expected %s with %s'
                               % (keys, vk, want_keys, want_val))
                    continue
                if mode == 'merge':
                    args = p.st.maps.get(val.oid, ())
                    ak = [it[1].s for it in args if it[0] == 'kv' and isinstance(it[1], Str)]
                    if present and (val.oid != 'oldargs' or ak[:2] != ['S', 'P']):
                        ctx.report('C06.R6', where, tag + ' loses earlier parameters',
                                   'merge must keep the parameters recorded earlier in the episode (got %s)' % ak)
                    status = p.st.dom.get(('param', ('sstr', 'CMD'), '?'))
                    if status is not None and 'A' not in status and '?' not in ak:
                        ctx.report('C06.R6', where, tag + ' drops a parameter',
                                   'a parameter word of the command is not recorded in the merged entry')
            ctx.sample({'rule': 'C06.R6', 'mode': mode, 'present': present, 'paths': len(paths)})


def split_rule(ctx, I):
    paths = run_plugin_method(I, '_splitGcodeScript', [SStr('SCRIPT')])
    paths += run_plugin_method(I, '_splitGcodeScript', [NONE])
    for p in paths:
        f = Facts(p, I)
        ctx.instance('C06.R9', f.describe())
        if f.raised:
            ctx.report('C06.R9', 'ExcludeRegionPlugin._splitGcodeScript', 'raises', repr(p.ret))
            continue
        if f.kind == 'none':
            continue
        if f.kind != 'list' or not f.elems:
            ctx.report('C06.R9', 'ExcludeRegionPlugin._splitGcodeScript', 'returns %s' % f.describe(),
                       'a script must become None or a non-empty list (an empty list would make generated results empty)')
            continue
        # each appended line was tested non-empty on this path
        for e in f.elems:
            for a in live_alts(p.st, e):
                tag = getattr(a, 'tag', None)
                ok = False
                for k, v in p.st.dom.items():
                    if tag and tag in repr(k) and (k[0] in ('sgn', 'truthy')):
                        ok = True
                if not ok and not isinstance(a, Star):
                    ctx.report('C06.R9', 'ExcludeRegionPlugin._splitGcodeScript', 'unchecked line',
                               'a script line is stored without having been tested non-empty: %r' % (a,))


def run(ctx, tier):
    declare(ctx)
    I = make_interp(ctx.model, unroll=2 if tier == 'thorough' else 1)
    census_rule(ctx)
    drain_rule(ctx, I)
    exit_order_rule(ctx, I)
    enter_rule(ctx, I)
    modes_rule(ctx, I)
    split_rule(ctx, I)
    from .rules_c14 import at_rules
    Iat = make_interp(ctx.model, unroll=3 if tier == 'thorough' else 2)
    at_rules(ctx, Iat, dict((r, 'C06.R10') for r in ('C14.R0', 'C14.R2', 'C14.R4')))
    run_path_rules(ctx, __name__, 'alias_rule_paths', ['G0', 'G2', 'G10', 'G11', 'M999'], unroll=1)
    ctx.assume('episodes end only through exitExcludedRegion (C03.R6) or resetState (C10)')
