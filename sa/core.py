"""Check context: findings, rule instances, known-findings matching, evidence, exit codes."""
import json
import os
import sys
import time

VERIF = os.path.dirname(os.path.dirname(os.path.abspath(__file__)))
OUT = os.environ.get('VERIF_OUT') or os.path.join(VERIF, 'evidence')
KNOWN_FILE = os.path.join(VERIF, 'known_findings.json')


class Finding(object):
    def __init__(self, prop, rule, func, construct, message, file=None, line=None, detail=None):
        self.prop = prop
        self.rule = rule
        self.func = func
        self.construct = construct
        self.message = message
        self.file = file
        self.line = line
        self.detail = detail

    def key(self):
        return (self.prop, self.rule, self.func, self.construct)

    def to_json(self):
        return {'property': self.prop, 'rule': self.rule, 'function': self.func, 'construct': self.construct,
                'message': self.message, 'file': self.file, 'line': self.line, 'detail': self.detail}


class Ctx(object):
    def __init__(self, prop, tier, model):
        self.prop = prop
        self.tier = tier
        self.model = model
        self.t0 = time.time()
        self.findings = []
        self.deferred_errors = []   # analyses that could not be completed (reported only when no violation was found)
        self._seen = set()
        self.rules = {}        # rule id -> {'instances': n, 'violations': n, 'desc': str, 'floor': n}
        self.samples = []
        self.assumptions = []
        self.notes = []
        self.extra = {}
        self.distinct = set()
        self.evaluations = 0

    # ---- rule bookkeeping
    def rule(self, rid, desc, floor=1):
        self.rules.setdefault(rid, {'desc': desc, 'instances': 0, 'violations': 0, 'floor': floor})

    def instance(self, rid, key=None, n=1):
        """one obligation of rule `rid` was examined; key identifies a distinct non-trivial instance"""
        self.rules[rid]['instances'] += n
        self.evaluations += n
        if key is not None:
            self.distinct.add((rid, key))

    def sample(self, obj):
        if len(self.samples) < 12:
            self.samples.append(obj)

    def report(self, rule, func, construct, message, file=None, line=None, detail=None):
        f = Finding(self.prop, rule, func, construct, message, file, line, detail)
        if f.key() in self._seen:
            return
        self._seen.add(f.key())
        self.findings.append(f)
        if rule in self.rules:
            self.rules[rule]['violations'] += 1

    def assume(self, text):
        if text not in self.assumptions:
            self.assumptions.append(text)

    # ---- finish
    def finish(self):
        from .model import AnalysisError
        vacuous = None
        for rid, r in sorted(self.rules.items()):
            if r['instances'] < r['floor']:
                vacuous = 'rule %s went vacuous: %d instances, floor %d (%s)' % (rid, r['instances'], r['floor'], r['desc'])
        known = load_known()
        active = {}
        for e in known.get('findings', []):
            if e.get('status') == 'known' and e.get('property') == self.prop:
                active[(e['property'], e['rule'], e['function'], e['construct'])] = e
        unknown = []
        matched = []
        for f in self.findings:
            e = active.get(f.key())
            if e is not None:
                matched.append((f, e))
            else:
                unknown.append(f)
        if self.deferred_errors and not unknown:
            raise AnalysisError(self.deferred_errors[0])
        if vacuous and not unknown:
            # a rule that examined too little cannot vouch for the property (violations found elsewhere are still reported)
            raise AnalysisError(vacuous)
        for err in self.deferred_errors:
            print('ANALYSIS-INCOMPLETE property=%s %s' % (self.prop, err.splitlines()[0][:300]))
        for f, e in matched:
            print('KNOWN-FINDING: property=%s %s %s %s :: %s [%s]' % (
                f.prop, f.rule, f.func, f.construct, f.message, e.get('id', '?')))
        replay_dir = os.path.join(OUT, 'replay')
        replays = []
        if unknown:
            os.makedirs(replay_dir, exist_ok=True)
        for i, f in enumerate(unknown):
            path = os.path.join(replay_dir, '%s_%s_%d.json' % (self.prop, f.rule.replace('.', '_'), i))
            with open(path, 'w') as fh:
                json.dump(f.to_json(), fh, indent=1, default=str)
            replays.append(path)
            where = '%s:%s' % (f.file, f.line) if f.file else ''
            print('  violation: %s %s %s | %s | %s' % (f.rule, where, f.func, f.construct, f.message))
            print('VIOLATION property=%s replay=%s' % (self.prop, path))
        self.write_evidence(len(unknown), matched)
        for rid, r in sorted(self.rules.items()):
            print('  %-10s instances=%-6d violations=%-3d %s' % (rid, r['instances'], r['violations'], r['desc']))
        if unknown:
            print('RESULT property=%s FAIL (%d new violation(s), %d known) in %.1fs' % (
                self.prop, len(unknown), len(matched), time.time() - self.t0))
            return 1
        print('RESULT property=%s OK (%d known finding(s)) in %.1fs' % (self.prop, len(matched), time.time() - self.t0))
        return 0

    def write_evidence(self, nviol, matched):
        obligations = sum(r['instances'] for r in self.rules.values())
        cov = {
            'explanation': ('Static analysis of the current working tree (ast only, nothing imported or executed). '
                            'Each rule lists the instances (functions, call sites, abstract paths, templates, '
                            'automaton queries) it examined; a rule with fewer instances than its floor aborts '
                            'the check as analysis-broken.'),
            'evaluations': max(1, self.evaluations),
            'distinct_nontrivial': len(self.distinct),
            'rule': ('evaluations = rule instances examined; distinct_nontrivial = distinct (rule, construct/path-'
                     'signature) pairs, i.e. instances that differ in the analysed construct or in the abstract '
                     'path decisions and output'),
            'obligations': obligations,
            'discharged': obligations - sum(r['violations'] for r in self.rules.values()),
            'samples': self.samples or [{'note': 'no samples recorded'}],
            'rules': {rid: {k: v for k, v in r.items()} for rid, r in sorted(self.rules.items())},
            'inventory': self.model.inventory() if self.model is not None else {},
            'known_findings_matched': [
                {'id': e.get('id'), 'rule': f.rule, 'function': f.func, 'construct': f.construct} for f, e in matched],
            'exhaustive': True,
            'notes': self.notes,
        }
        cov.update(self.extra)
        ev = {
            'property_id': self.prop,
            'tier': self.tier,
            'seed': int(os.environ.get('VERIF_SEED', '0') or 0),
            'level': 'other',
            'coverage': cov,
            'assumptions': self.assumptions,
            'wall_s': round(time.time() - self.t0, 3),
            'violations': nviol,
        }
        d = OUT
        os.makedirs(d, exist_ok=True)
        with open(os.path.join(d, '%s.json' % self.prop), 'w') as fh:
            json.dump(ev, fh, indent=1, default=str)


def load_known():
    if not os.path.exists(KNOWN_FILE):
        return {'findings': []}
    with open(KNOWN_FILE) as fh:
        return json.load(fh)


class Collector(object):
    """picklable subset of Ctx used inside worker processes"""

    def __init__(self, prop):
        self.prop = prop
        self.rules = {}
        self.findings = []
        self.samples = []
        self.distinct = set()
        self.evaluations = 0
        self.notes = []
        self.extra = {}

    def rule(self, rid, desc, floor=1):
        self.rules.setdefault(rid, {'desc': desc, 'instances': 0, 'violations': 0, 'floor': floor})

    def instance(self, rid, key=None, n=1):
        self.rules[rid]['instances'] += n
        self.evaluations += n
        if key is not None:
            self.distinct.add((rid, key))

    def sample(self, obj):
        if len(self.samples) < 4:
            self.samples.append(obj)

    def report(self, rule, func, construct, message, file=None, line=None, detail=None):
        self.findings.append((rule, func, construct, message, file, line, detail))


def merge_collector(ctx, col):
    for rid, r in col.rules.items():
        ctx.rule(rid, r['desc'], r['floor'])
        ctx.rules[rid]['instances'] += r['instances']
    ctx.evaluations += col.evaluations
    ctx.distinct |= col.distinct
    for s in col.samples:
        ctx.sample(s)
    for f in col.findings:
        ctx.report(*f)
    ctx.notes.extend(col.notes)
    for k, v in col.extra.items():
        if k == 'W':
            ctx.extra['W_all'] = sorted(set(ctx.extra.get('W_all', [])) | set(v))
            continue
        if isinstance(v, (int, float)) and isinstance(ctx.extra.get(k), (int, float)):
            ctx.extra[k] += v
        else:
            ctx.extra.setdefault(k, v)
