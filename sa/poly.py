"""Laurent polynomials with exact rational coefficients (component G of DESIGN.md).

Numeric values of the abstract interpreter are kept in this normal form, so that two expressions
denote the same real-valued function of the input symbols iff their normal forms are syntactically
equal (for the operations + - * and division by a monomial).  No search, no solver: expansion and
dictionary comparison only.
"""
from fractions import Fraction


def _mono_mul(a, b):
    if not a:
        return b
    if not b:
        return a
    d = dict(a)
    for s, e in b:
        n = d.get(s, 0) + e
        if n:
            d[s] = n
        else:
            d.pop(s, None)
    return tuple(sorted(d.items()))


class Poly(object):
    __slots__ = ('t', '_h')

    def __init__(self, terms=None):
        self.t = {m: c for m, c in (terms or {}).items() if c != 0}
        self._h = None

    # ---- construction
    @staticmethod
    def const(c):
        if isinstance(c, float):
            c = Fraction(repr(c))
        return Poly({(): Fraction(c)})

    @staticmethod
    def sym(name):
        return Poly({((name, 1),): Fraction(1)})

    # ---- queries
    def is_const(self):
        return not self.t or (len(self.t) == 1 and () in self.t)

    def const_value(self):
        return self.t.get((), Fraction(0))

    def is_zero(self):
        return not self.t

    def symbols(self):
        out = set()
        for m in self.t:
            for s, _ in m:
                out.add(s)
        return out

    def is_monomial(self):
        return len(self.t) == 1

    def single_symbol(self):
        """name if the polynomial is exactly one symbol with coefficient 1, else None"""
        if len(self.t) == 1:
            (m, c), = self.t.items()
            if c == 1 and len(m) == 1 and m[0][1] == 1:
                return m[0][0]
        return None

    def key(self):
        return tuple(sorted(self.t.items()))

    def __hash__(self):
        if self._h is None:
            self._h = hash(self.key())
        return self._h

    def __eq__(self, other):
        return isinstance(other, Poly) and self.t == other.t

    def __ne__(self, other):
        return not self.__eq__(other)

    # ---- arithmetic
    def __add__(self, o):
        d = dict(self.t)
        for m, c in o.t.items():
            n = d.get(m, 0) + c
            if n:
                d[m] = n
            else:
                d.pop(m, None)
        return Poly(d)

    def __neg__(self):
        return Poly({m: -c for m, c in self.t.items()})

    def __sub__(self, o):
        return self + (-o)

    def __mul__(self, o):
        d = {}
        for m1, c1 in self.t.items():
            for m2, c2 in o.t.items():
                m = _mono_mul(m1, m2)
                n = d.get(m, 0) + c1 * c2
                if n:
                    d[m] = n
                else:
                    d.pop(m, None)
        return Poly(d)

    def inverse(self):
        """exact inverse when self is a single non-zero monomial, else None"""
        if len(self.t) != 1:
            return None
        (m, c), = self.t.items()
        return Poly({tuple((s, -e) for s, e in m): 1 / c})

    def div(self, o):
        inv = o.inverse()
        if inv is None:
            return None
        return self * inv

    def pow(self, n):
        r = Poly.const(1)
        for _ in range(n):
            r = r * self
        return r

    def subst(self, name, repl):
        """replace every occurrence of symbol `name` (non-negative powers only) by polynomial repl"""
        out = Poly()
        for m, c in self.t.items():
            term = Poly({tuple((s, e) for s, e in m if s != name): c})
            for s, e in m:
                if s == name:
                    if e < 0:
                        raise ValueError('negative power of substituted symbol')
                    term = term * repl.pow(e)
            out = out + term
        return out

    def subst_even_power(self, name, square):
        """replace name**2 by `square` (used for hypot/sqrt rewrite rules); odd remainder stays"""
        out = Poly()
        for m, c in self.t.items():
            e = dict(m).get(name, 0)
            if e >= 2:
                rest = tuple((s, x) for s, x in m if s != name)
                if e % 2:
                    rest = _mono_mul(rest, ((name, 1),))
                out = out + Poly({rest: c}) * square.pow(e // 2)
            else:
                out = out + Poly({m: c})
        return out

    # ---- canonical form up to a positive scalar: returns (unit, sign) with self == sign*k*unit, k>0
    def canon(self):
        if not self.t:
            return self, 0
        lead = min(self.t)  # deterministic: smallest monomial tuple
        c = self.t[lead]
        k = abs(c)
        sgn = 1 if c > 0 else -1
        unit = Poly({m: v / k * sgn for m, v in self.t.items()})
        return unit, sgn

    def __repr__(self):
        if not self.t:
            return '0'
        parts = []
        for m, c in sorted(self.t.items()):
            ms = '*'.join(s if e == 1 else '%s^%d' % (s, e) for s, e in m)
            if not ms:
                parts.append(str(c))
            elif c == 1:
                parts.append(ms)
            elif c == -1:
                parts.append('-' + ms)
            else:
                parts.append('%s*%s' % (c, ms))
        return ' + '.join(parts).replace('+ -', '- ')
