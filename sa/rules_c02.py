"""C02 - transparency: a print that never touches a region is forwarded verbatim."""
from .handlers import run_path_rules
from .entries import gcodes_to_analyse
from .pathfacts import Facts, live_alts, classify, S_OID

PROP = 'C02'
STATE_ONLY = ('G20', 'G21', 'G28', 'G90', 'G91', 'G92', 'M206')


def declare(c):
    c.rule('C02.R1', 'inductive invariant: from (not excluding, no owed recovery) and no destination inside a region '
                     'every handler path returns None or exactly [cmd] and stays in the invariant', floor=60)
    c.rule('C02.R2', 'state-only handlers (units, modes, homing, G92, M206) pass the command through on every path',
           floor=7)
    c.rule('C02.R3', 'with exclusion disabled no region test succeeds', floor=1)
    c.rule('C02.R4', 'the induction relies on the tracked position being the file position: every move with an X/Y/Z word '
                     'advances the tracked axis and is tested against the regions before it is forwarded', floor=50)
    c.rule('C19.R6', 'C19: the trailing (\'\', text) item of parameterItems never changes what a handler does', floor=100)
    c.rule('C19.R4', 'C19: letter -> argument flow of the state-only handlers (G28 flags, G92 / M206 words)', floor=10)
    c.rule('C02.R5', '"inside a region" is asked about the destination itself: the region test receives the exact native '
                     'coordinates of the point (no rounding or adjustment that could move a point across a border)', floor=8)


def in_inv_pre(f):
    return f.pre_excluding is not True and f.owed is not True


def path_rules(col, gcode, paths, I):
    declare(col)
    from . import rules_c19
    if gcode in ('G28', 'G92', 'M206'):
        rules_c19.path_rules(col, gcode, paths, I, own=False)        # includes the string-argument rule
    else:
        rules_c19.strarg_rule(col, gcode, paths, I)
    for p in paths:
        f = Facts(p, I)
        if f.raised:
            continue        # exceptions are C09's business
        if f.pre_enabled is False:
            col.instance('C02.R3', (gcode, f.describe()))
            if f.any_excluded:
                col.report('C02.R3', 'ExcludeRegionState.isPointExcluded', gcode,
                           'a region test succeeded although exclusion is disabled',
                           detail={'entry': p.entry, 'decisions': f.decisions()})
        if gcode in STATE_ONLY:
            col.instance('C02.R2', (gcode, f.describe()))
            if f.kind != 'none':
                col.report('C02.R2', 'GcodeHandlers._handle_%s' % gcode, '%s -> %s' % (gcode, f.describe()),
                           'state-only code is not passed through unchanged',
                           detail={'entry': p.entry, 'decisions': f.decisions()})
        if gcode in ('G0', 'G1', 'G2', 'G3'):
            from .pathfacts import tracking_violations
            col.instance('C02.R4', (gcode, f.describe(), tuple(f.decisions()[-4:])))
            for (fn, construct, msg) in tracking_violations(f, gcode, I):
                col.report('C02.R4', fn, construct, msg + ': later decisions are taken on a stale position, so moves that '
                           'stay clear of every region can be suppressed', detail={'entry': p.entry, 'decisions': f.decisions()})
            moved = gcode in ('G2', 'G3') or f.valued('X') or f.valued('Y') or f.valued('Z')
            kinds = f.elem_kinds()
            if any('CMD' in k for k in kinds) and ('ExcludeRegionState', 'processLinearMoves') in f.calls and moved \
                    and f.pre_enabled is not False and not f.region_tested:
                col.report('C02.R4', 'ExcludeRegionState.processLinearMoves', '%s forwards move untested' % gcode,
                           'a move is forwarded without its destination having been tested (and tracked)',
                           detail={'entry': p.entry, 'decisions': f.decisions()})
        if not in_inv_pre(f) or f.any_excluded:
            continue
        col.instance('C02.R1', (gcode, f.describe(), tuple(f.decisions()[-6:])))
        ok = f.kind == 'none'
        if f.kind == 'list' and len(f.elems) == 1:
            kinds = set()
            for a in live_alts(p.st, f.elems[0]):
                kinds.add(classify(a))
            ok = kinds == {'CMD'}
        if not ok:
            col.report('C02.R1', 'GcodeHandlers.handleGcode', '%s -> %s' % (gcode, f.describe()),
                       'command not forwarded verbatim although nothing is excluded and no recovery is owed '
                       '[%s]' % '; '.join(f.decisions()[-8:]),
                       detail={'entry': p.entry, 'decisions': f.decisions()})
            continue
        # the invariant is preserved
        bad = None
        if f.post_excluding() is True:
            bad = 'excluding becomes True'
        for e in f.wrote('RetractionState', 'recoverExcluded'):
            if any(a is True for a in live_alts(p.st, e[3])):
                bad = 'a recovery becomes owed (recoverExcluded=True)'
        if bad:
            col.report('C02.R1', 'GcodeHandlers.handleGcode', '%s post-state' % gcode,
                       'transparent path leaves the invariant: %s' % bad,
                       detail={'entry': p.entry, 'decisions': f.decisions()})
        col.sample({'entry': p.entry, 'result': f.describe(), 'decisions': f.decisions()[-5:]})


def run(ctx, tier):
    declare(ctx)
    gcodes = gcodes_to_analyse(ctx.model)
    for g in STATE_ONLY:
        if g not in gcodes:
            ctx.notes.append('no dedicated handler for %s: analysed through the default path' % g)
            gcodes.append(g)
    run_path_rules(ctx, __name__, 'path_rules', gcodes, unroll=2 if tier == 'thorough' else 1,
                   debug_logging=(tier == 'thorough'))
    from .entries import make_interp
    from .rules_c08 import native_args_rule
    native_args_rule(ctx, make_interp(ctx.model), 'C02.R5', 'C02.R5')
    from .rules_c08 import frame_premise
    frame_premise(ctx)
    from .rules_c08 import state_code_premise
    state_code_premise(ctx)
    # "inside a region" means the closed rectangle / disc: the point predicates and the corner normalisation they rely on
    from . import rules_c17
    for rid in ('C17.R1', 'C17.R2'):
        ctx.rule(rid, 'C17: ' + ('containsPoint is exactly the closed rectangle / closed disc test' if rid.endswith('1') else
                                 'constructor normalisation x1<=x2, y1<=y2'), floor=4)
    I17 = make_interp(ctx.model, modular=False)
    I17.merge_ifs = False
    rules_c17.point_rules(ctx, I17)
    rules_c17.ctor_rules(ctx, I17)
    # the words of a command are read the way the firmware reads them (number language, tokeniser progress, word order):
    # a word the parser drops is a move the tracking misses
    from . import rules_c19
    ctx.rule('C19.R1', 'C19: every RS274 decimal is read as one value and nothing else is', floor=2)
    ctx.rule('C19.R2', 'C19: the word tokeniser cannot stop early', floor=1)
    ctx.rule('C19.R3', 'C19: parameterItems yields (upper-cased letter, float | None) in source order', floor=4)
    rules_c19.language_rules(ctx)
    rules_c19.items_rules(ctx, rules_c19.parser_interp(ctx.model, unroll=2))
    # arcs are judged by their sampled points: the sampling itself (end point, circle, equal steps in the commanded
    # direction, density) is a premise (C16.R1-R5, R7; the radius-form centre law R6 has its own known finding under C16)
    from . import rules_c16
    for rid, floor in (('C16.R1', 4), ('C16.R3', 4), ('C16.R4', 4), ('C16.R4b', 4), ('C16.R4c', 2), ('C16.R5', 2), ('C16.R7', 4)):
        ctx.rule(rid, 'C16: ' + {'C16.R1': 'last sampled pair is the commanded end point', 'C16.R3': 'samples lie on the circle',
                                 'C16.R4': 'equal angular steps from the start angle', 'C16.R4b': 'sweep direction and wrap-around',
                                 'C16.R4c': 'sweep angle from cross / dot of the radius vectors', 'C16.R5': 'sample density',
                                 'C16.R7': 'planArc does not raise'}[rid], floor=floor)
    rules_c16.plan_rules(ctx, make_interp(ctx.model, unroll=3, modular=False))
    ctx.assume('"destination inside a region" is the abstract outcome of Region.containsPoint (geometry: C17; '
               'position conversion: C08)')
    ctx.assume('both values of g90InfluencesExtruder are covered: the setting is a free boolean of the initial state')
