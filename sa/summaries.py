"""Summaries for GcodeParser (the regex front end).

The abstract interpreter does not interpret regular-expression matching.  The parser is replaced by the
following summary, whose ingredients are verified on the parser's own source by the C18/C19 rules
(sa/rules_parser.py): `parse(src)` stores `src` as `source`, re-assigns every line attribute and returns
the instance; `parameterItems()` yields (UPPER-CASE LETTER, float|None) pairs in source order;
`stringify(...)` / `buildCommand(...)` return strings derived from the parsed text and flags only.
"""
import ast

from .values import (NONE, Num, Str, SStr, Cat, Obj, TupleV, Star, Choice, Opaque, IterV, ParamIter, vkey, deps_of)
from .absint import Raised, BOOL

PARSER = 'GcodeParser'
LINE_ATTRS = ('type', 'code', 'gcode', 'subCode', 'parameters', 'text', 'eol', 'comment', 'lineNumber', 'checksum',
              'rawChecksum', 'leadingWhitespace', 'trailingWhitespace', 'commandString', 'fullText', 'parameterDict')


def _k(v):
    if isinstance(v, Str):
        return repr(v.s)
    if isinstance(v, (SStr, Opaque)):
        return v.tag
    return repr(vkey(v))


def install(I):
    if PARSER not in I.m.classes:
        return
    S = I.summaries

    def parse(I, st, recv, args, kw, frame, node):
        src = args[0] if args else kw.get('source', NONE)
        oid = recv.oid
        gen = st.heap.get((oid, '@gen'), 0) + 1
        st.heap[(oid, '@gen')] = gen
        if src is NONE:
            src = Opaque('nextline(%s)' % _k(st.heap.get((oid, 'source'), Opaque('unparsed'))))
            st.heap[(oid, '@parsed')] = src
        else:
            st.heap[(oid, 'source')] = src
            st.heap[(oid, '@parsed')] = src
        for a in LINE_ATTRS:
            st.heap.pop((oid, a), None)
        st.ev('parse', oid, src, frame.qual(), gen)
        return [(st, recv)]
    S[(PARSER, 'parse')] = parse

    def parameterItems(I, st, recv, args, kw, frame, node):
        src = args[0] if args else st.heap.get((recv.oid, '@parsed'), Opaque('unparsed(%s)' % recv.oid))
        return [(st, ParamIter(src))]
    S[(PARSER, 'parameterItems')] = parameterItems

    def parseLines(I, st, recv, args, kw, frame, node):
        src = args[0] if args else NONE
        st.heap[(recv.oid, '@gen')] = st.heap.get((recv.oid, '@gen'), 0) + 1
        st.ev('parse', recv.oid, src, frame.qual(), st.heap[(recv.oid, '@gen')])
        return [(st, IterV([Star('lines(%s)' % _k(src), '@line')], 'parseLines'))]
    S[(PARSER, 'parseLines')] = parseLines

    def stringify(I, st, recv, args, kw, frame, node):
        # normalise the call to keyword form with the real signature (positional arguments, defaults)
        c0, fn0 = I.m.lookup(PARSER, 'stringify')
        if fn0 is not None:
            names = [a.arg for a in fn0.args.args][1:]
            kw = dict(kw)
            for nme, val in zip(names, args):
                kw.setdefault(nme, val)
            defaults = fn0.args.defaults
            for nme, dn in zip(names[len(names) - len(defaults):], defaults):
                if nme not in kw and isinstance(dn, ast.Constant):
                    from .exprs import const_value
                    kw[nme] = const_value(dn.value)
        flags = ','.join('%s=%s' % (k, _k(v)) for k, v in sorted(kw.items()))
        src = st.heap.get((recv.oid, '@parsed'), Opaque('unparsed(%s)' % recv.oid))
        st.ev('stringify', recv.oid, src, tuple(sorted((k, vkey(v)) for k, v in kw.items())), frame.qual())
        return [(st, SStr('stringify(%s;%s)' % (_k(src), flags), deps_of(src)))]
    S[(PARSER, 'stringify')] = stringify

    def buildCommand(I, st, recv, args, kw, frame, node):
        gen = st.heap.get((recv.oid, '@gen'), 0) + 1
        st.heap[(recv.oid, '@gen')] = gen
        tag = 'built(%s;%s)' % (_k(args[0]) if args else '?', ','.join('%s=%s' % (k, _k(v)) for k, v in sorted(kw.items())))
        src = Opaque(tag)
        st.heap[(recv.oid, '@parsed')] = src
        st.heap[(recv.oid, 'source')] = Str('')
        for a in LINE_ATTRS:
            st.heap.pop((recv.oid, a), None)
        st.ev('buildCommand', recv.oid, args[0] if args else NONE, dict(kw), frame.qual())
        deps = set()
        for v in list(args) + list(kw.values()):
            deps |= deps_of(v)
        return [(st, SStr(tag, deps, nonempty=True))]
    S[(PARSER, 'buildCommand')] = buildCommand

    def mkprop(attr):
        def prop(I, st, recv, args, kw, frame, node):
            key = (recv.oid, attr)
            if key not in st.heap:
                src = st.heap.get((recv.oid, '@parsed'), Opaque('unparsed(%s)' % recv.oid))
                gen = st.heap.get((recv.oid, '@gen'), 0)
                tag = '%s(%s)' % (attr, _k(src))
                if attr in ('type', 'gcode', 'comment', 'parameters', 'rawChecksum'):
                    v = I.maybe(('null', tag), SStr(tag, deps_of(src) | {'gen%d' % gen}, nonempty=attr in ('type', 'gcode')))
                elif attr in ('code', 'subCode', 'lineNumber', 'checksum'):
                    v = I.maybe(('null', tag), Opaque(tag, deps_of(src)))
                else:
                    v = SStr(tag, deps_of(src) | {'gen%d' % gen})
                st.heap[key] = v
            st.ev('parser-read', recv.oid, attr, st.heap.get((recv.oid, '@gen'), 0), frame.qual())
            return [(st, st.heap[key])]
        return prop
    ci = I.m.classes[PARSER]
    for attr in LINE_ATTRS:
        if attr in ci.props:
            S[(PARSER, attr)] = mkprop(attr)
