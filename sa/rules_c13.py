"""C13 - region registry integrity and client notification."""
import ast

from .entries import make_interp, new_plugin_state, Path
from .pathfacts import Facts, live_alts
from .plugin import (effects, region_mutations, notifications, is_error_tuple, REGIONS, install_region_summaries,
                     api_data, new_region)
from .values import NONE, Num, Str, SStr, Obj, TupleV, Opaque, Star, vkey
from .absint import Raised

PROP = 'C13'
ANON = ('truthy', ('opaque', 'flask_login.current_user.is_anonymous()'))


def declare(c):
    c.rule('C13.R1', 'a region is appended only after no stored region had the same id; a replacement only hits the '
                     'region with the same id', floor=4)
    c.rule('C13.R5', 'one id relation: on the add, update and delete routes a stored region\'s id is only ever compared raw, '
                     'with ==, against the requested id - the uniqueness guard and the selectors of replace/delete share the '
                     'relation; a replacement overwrites exactly the slot whose id compared equal', floor=6)
    c.rule('C13.R2', 'the anonymous-user test comes first and its refusal is effect free', floor=4)
    c.rule('C13.R3', 'every change of the region list is followed by exactly one notification before returning; no '
                     'change, no notification', floor=20)
    c.rule('C13.R4', 'notification payload and GET response are the same unfiltered, order-preserving map of the '
                     'region list', floor=2)


def run_api(I, cmd, rtype, restrict=None, unroll_regions=None):
    st, P, H, S = new_plugin_state(I)
    for k, v in (restrict or {}).items():
        st.restrict(k, frozenset(v))
    data = api_data(st, rtype) if rtype else Opaque('data')
    res = I.run_method(st, 'ExcludeRegionPlugin', 'on_api_command', P, [Str(cmd), data])
    return [Path('on_api_command(%s,%s)' % (cmd, rtype), s, v, {}) for (s, v) in res]


def uniqueness_rule(ctx, I):
    for rtype in ('RectangularRegion', 'CircularRegion'):
        for p in run_api(I, 'addExcludeRegion', rtype, {ANON: [False]}):
            muts = region_mutations(p)
            ctx.instance('C13.R1', ('add', rtype, repr(p.ret)[:40], tuple(m[1] for m in muts)))
            if isinstance(p.ret, Raised):
                ctx.report('C13.R1', 'ExcludeRegionPlugin.on_api_command', 'add raises %s' % p.ret.exc, repr(p.ret))
                continue
            if not muts:
                if not is_error_tuple(p.ret):
                    ctx.report('C13.R1', 'ExcludeRegionPlugin._handleAddExcludeRegion', 'silent refusal',
                               'an add request that stored nothing must be answered with an error (got %r)' % (p.ret,))
                continue
            if [m[1] for m in muts] != ['seq-append']:
                ctx.report('C13.R1', 'ExcludeRegionState.addRegion', 'add mutations %s' % [m[1] for m in muts],
                           'an add request must append exactly one region')
                continue
            # every stored element visited on this path compared unequal by id, and the walk was complete
            ideq = [(k, v) for k, v in p.st.dom.items() if k[0] == 'eq' and 'regions[' in repr(k) and '.id' in repr(k)]
            more0 = p.st.dom.get(('more', 'regions', 0))
            if any(v == frozenset([True]) for k, v in ideq):
                ctx.report('C13.R1', 'ExcludeRegionState.addRegion', 'append despite id collision',
                           'a region is appended although a stored region has the same id')
            if more0 == frozenset([True]) and not ideq:
                ctx.report('C13.R1', 'ExcludeRegionState.addRegion', 'append without id check',
                           'a region is appended without comparing its id against the stored regions')
            if more0 is None:
                ctx.report('C13.R1', 'ExcludeRegionState.addRegion', 'append without walking the list',
                           'a region is appended without consulting the stored regions at all')
    ctx.sample({'rule': 'C13.R1', 'checked': 'add paths for both region types'})


def relation_rule(ctx, I):
    from .plugin import id_comparisons
    for cmd in ('addExcludeRegion', 'updateExcludeRegion', 'deleteExcludeRegion'):
        for rtype in ('RectangularRegion', 'CircularRegion'):
            reported = set()
            for p in run_api(I, cmd, rtype, {ANON: [False]}):
                comps = id_comparisons(p)
                muts = region_mutations(p)
                ctx.instance('C13.R5', (cmd, rtype, repr(p.ret)[:40], tuple(m[1] for m in muts), len(comps)))
                for (k, v, raw, slot) in comps:
                    if not raw and repr(k) not in reported:
                        reported.add(repr(k))
                        ctx.report('C13.R5', 'ExcludeRegionState.%s' % {'addExcludeRegion': 'addRegion', 'updateExcludeRegion': 'replaceRegion',
                                                                         'deleteExcludeRegion': 'deleteRegion'}[cmd],
                                   '%s compares ids as %s' % (cmd, repr(k)[:140]),
                                   'a stored region\'s id is compared through a conversion or with another operator than ==: '
                                   'the uniqueness guard of add and this selector no longer agree on what "the same id" means '
                                   '(two regions that are distinct for one are the same for the other)')
                for (i, kind) in muts:
                    if kind not in ('seq-set', 'seq-del'):
                        continue
                    ev = p.st.trace[i]
                    idx = ev[2]
                    hit = [slot for (k, v, raw, slot) in comps if raw and v == frozenset([True])]
                    if not hit or not any(repr(getattr(idx, 'p', idx)) in h for h in hit):
                        ctx.report('C13.R5', 'ExcludeRegionState.%s' % ('replaceRegion' if kind == 'seq-set' else 'deleteRegion'),
                                   '%s changes a slot whose id did not compare equal' % cmd,
                                   'the slot that is overwritten / removed is not the one whose id was found equal (==) to the '
                                   'requested id (slot %r, equal: %s)' % (getattr(idx, 'p', idx), hit))


def anonymous_rule(ctx, I):
    for cmd in ('addExcludeRegion', 'updateExcludeRegion', 'deleteExcludeRegion', 'bogus'):
        for p in run_api(I, cmd, 'RectangularRegion'):
            ctx.instance('C13.R2', (cmd, repr(p.ret)[:40]))
            ext = [e for e in p.st.trace if e[0] in ('ext', 'write', 'new') or e[0].startswith('seq-')]
            first = next((e for e in p.st.trace if e[0] in ('ext', 'write', 'new', 'regiontest') or e[0].startswith('seq-')), None)
            if first is None or not (first[0] == 'ext' and first[1].endswith('is_anonymous')):
                ctx.report('C13.R2', 'ExcludeRegionPlugin.on_api_command', '%s: first action %s' % (cmd, (first or ['none'])[:2]),
                           'the access check is not the first thing an API request does')
            if p.dec(ANON) is True:
                eff = effects(p)
                if eff or not is_error_tuple(p.ret) or region_mutations(p):
                    ctx.report('C13.R2', 'ExcludeRegionPlugin.on_api_command', '%s by anonymous user' % cmd,
                               'an unauthenticated request is not refused cleanly: result %r effects %s' % (p.ret, eff[:3]))
            if p.dec(ANON) is None:
                ctx.report('C13.R2', 'ExcludeRegionPlugin.on_api_command', '%s without access check' % cmd,
                           'a path through the API never consults the access check')


def pairing_rule(ctx, I):
    entries = []
    for cmd in ('addExcludeRegion', 'updateExcludeRegion', 'deleteExcludeRegion'):
        for rtype in ('RectangularRegion', 'CircularRegion'):
            entries.append(('api', cmd, rtype))
    for ev in ('FILE_SELECTED', 'PRINT_DONE', 'PRINT_FAILED', 'PRINT_CANCELLED', 'PRINT_STARTED', 'ERROR', 'PRINT_CANCELLING'):
        entries.append(('event', ev, None))
    for kind, a, b in entries:
        if kind == 'api':
            paths = run_api(I, a, b)
        else:
            st, P, H, S = new_plugin_state(I)
            paths = [Path('on_event(%s)' % a, s, v, {}) for (s, v) in
                     I.run_method(st, 'ExcludeRegionPlugin', 'on_event', P, [Str('Events.' + a), Opaque('payload')])]
        for p in paths:
            muts = [i for i, _k in region_mutations(p)]
            notes = notifications(p)
            ctx.instance('C13.R3', (kind, a, b, len(muts), len(notes), repr(p.ret)[:30]))
            where = 'ExcludeRegionPlugin.%s' % ('on_api_command' if kind == 'api' else 'on_event')
            tag = '%s %s' % (a, b or '')
            if isinstance(p.ret, Raised):
                if muts and not notes:
                    ctx.report('C13.R3', where, tag + ' raises after change', 'the list changed, then %r' % (p.ret,))
                continue
            if muts:
                # between the change and its notification nothing runs that may raise: an exception there is answered as a
                # rejection (or escapes) although the list has already changed
                end = notes[0] if notes else len(p.st.trace)
                for e in p.st.trace[max(muts) + 1:end]:
                    if e[0] == 'obj-to-text':
                        ctx.report('C13.R3', e[3] if isinstance(e[3], str) else where, tag.strip() + ': %s runs between the change and the notification' % e[2],
                                   'an object is converted to text eagerly (format / %% / f-string) after the region list changed '
                                   'and before the clients are told: %s can raise (for example json.dumps on a non-finite '
                                   'coordinate), the request is then answered as rejected although the list has changed and no '
                                   'notification is sent' % e[2])
                        break
            if muts and (len(notes) != 1 or notes[0] < max(muts)):
                ctx.report('C13.R3', where, tag.strip() + ': %d change(s), %d notification(s)' % (len(muts), len(notes)),
                           'a change of the region list must be followed by exactly one notification '
                           '(notification indices %s, change indices %s)' % (notes, muts))
            if not muts and notes:
                ctx.report('C13.R3', where, tag.strip() + ': notification without change',
                           'a request that left the region list untouched sends a change notification')


def _payload_shape(st, v):
    """shape of a region-list rendering: tuple of element kinds"""
    if isinstance(v, Obj) and v.oid in st.seqs:
        return tuple(x.tag if isinstance(x, Star) else repr(vkey(x)) for x in st.seqs[v.oid])
    return ('?', repr(v))


def payload_rule(ctx, I):
    st, P, H, S = new_plugin_state(I)
    res = I.run_method(st, 'ExcludeRegionPlugin', '_notifyExcludedRegionsChanged', P, [])
    shapes = {}
    for (s, v) in res:
        for e in s.trace:
            if e[0] == 'ext' and e[1].endswith('send_plugin_message'):
                payload = e[2][1] if len(e[2]) > 1 else None
                if isinstance(payload, Obj) and payload.oid in s.maps:
                    for it in s.maps[payload.oid]:
                        if it[0] == 'kv' and isinstance(it[1], Str) and it[1].s == 'excluded_regions':
                            shapes['notify'] = _payload_shape(s, it[2])
    st, P, H, S = new_plugin_state(I)
    res = I.run_method(st, 'ExcludeRegionPlugin', 'on_api_get', P, [Opaque('request')])
    for (s, v) in res:
        for e in s.trace:
            if e[0] == 'ext' and e[1] == 'flask.jsonify':
                kw = dict(e[3])
                if 'excluded_regions' in kw:
                    shapes['get'] = _payload_shape(s, kw['excluded_regions'])
    ctx.instance('C13.R4', repr(shapes))
    want = ('map(_.toDict() over regions)',)
    for k in ('notify', 'get'):
        ctx.instance('C13.R4', (k, shapes.get(k)))
        if shapes.get(k) != want:
            ctx.report('C13.R4', 'ExcludeRegionPlugin.%s' % ('_notifyExcludedRegionsChanged' if k == 'notify' else 'on_api_get'),
                       '%s payload %s' % (k, shapes.get(k)),
                       'the payload is not the plain toDict() rendering of the whole region list in order')
    ctx.sample({'rule': 'C13.R4', 'shapes': {k: list(v) for k, v in shapes.items()}})


def run(ctx, tier):
    declare(ctx)
    I = make_interp(ctx.model, unroll=2 if tier == 'thorough' else 1)
    install_region_summaries(I)
    uniqueness_rule(ctx, I)
    relation_rule(ctx, I)
    anonymous_rule(ctx, I)
    pairing_rule(ctx, I)
    payload_rule(ctx, I)
    ctx.assume('request ids / region ids are compared with ==; OctoPrint serialises toDict() output unchanged')
