"""Loops: unrolling over abstract element sequences, parameter-word loops, comprehensions."""
import ast

from .values import (NONE, Num, Str, SStr, Cat, Obj, TupleV, Star, Choice, Opaque, ExtFn, IterV, ParamIter, vkey)
from .absint import Raised, Unsupported, BOOL, _norm
from .containers import _fresh_elem
from .exprs import seq_elements

PSTATUS = frozenset(['A', 'F', 'V'])   # parameter word absent / flag (no value) / valued
PSTRARG = frozenset(['A', 'F'])        # the trailing string-argument item: absent / present


def _elements(I, st, it, frame, s):
    if isinstance(it, ParamIter):
        return None
    if it is NONE:
        raise Unsupported('iterating None')
    if isinstance(it, Obj) and it.oid in st.maps:
        from .containers import map_items
        return list(map_items(I, st, it, 'keys').elems)
    return seq_elements(I, st, it)


def forloop(I, st, env, s, frame):
    out = []
    for (s1, it) in I.evalf(st, env, s.iter, frame):
        e1 = env if s1 is st else dict(env)
        if isinstance(it, Raised):
            out.append((s1, e1, ('raise', it)))
            continue
        if it is NONE:
            out.append((s1, e1, ('raise', Raised('TypeError', 'NoneType is not iterable: %s' % _norm(s.iter),
                                                 (frame.qual(), s.lineno)))))
            continue
        if isinstance(it, ParamIter):
            res = param_loop(I, s1, e1, s, it, frame)
        else:
            elems = _elements(I, s1, it, frame, s)
            res = iterate(I, s1, e1, s, elems, frame)
        for (s2, e2, oc) in res:
            if oc is None and s.orelse:
                out.extend(I.block(s2, e2, s.orelse, frame))
            elif oc is not None and oc[0] == 'break':
                out.append((s2, e2, None))
            else:
                out.append((s2, e2, oc))
    return out


def _body(I, st, env, s, elem, frame):
    """run one iteration; returns [(st, env, oc)] with oc in None | break | ret | raise"""
    res = []
    for (s2, e2, oc) in I.assign(st, env, s.target, elem, frame):
        if oc is not None:
            res.append((s2, e2, oc))
            continue
        for (s3, e3, oc3) in I.block(s2, e2, s.body, frame):
            if oc3 is not None and oc3[0] == 'continue':
                oc3 = None
            res.append((s3, e3, oc3))
    return res


def iterate(I, st, env, s, elems, frame):
    """returns [(st, env, oc)]; oc None = loop ran to completion, ('break',) = left by break"""
    cur = [(st, env, None)]
    for el in elems:
        nxt = []
        for (s1, e1, oc) in cur:
            if oc is not None:
                nxt.append((s1, e1, oc))
            elif isinstance(el, Star):
                nxt.extend(star_iterate(I, s1, e1, s, el, 0, frame))
            elif type(el).__name__ == 'Opt':
                for (s2, there) in I.decide(s1, el.key_, PSTATUS, el.allowed):
                    e2 = e1 if s2 is s1 else dict(e1)
                    if there:
                        nxt.extend(_body(I, s2, e2, s, el.value, frame))
                    else:
                        nxt.append((s2, e2, None))
            else:
                nxt.extend(_body(I, s1, e1, s, el, frame))
        cur = nxt
    return cur


def star_iterate(I, st, env, s, star, j, frame):
    K = I.unroll
    out = []
    if j >= K:
        # no further unrolling: the run may have more elements than were visited
        if not (j == 0 and star.nonempty):
            for (s2, more) in I.decide(st, ('more', star.tag, j), BOOL, frozenset([True])):
                if more:
                    s2.flags.add(('loop-truncated', frame.qual(), s.lineno))
                    s2.ev('loop-truncated', frame.qual(), star.tag, j)
                out.append((s2, env if s2 is st else dict(env), None))
            return out
    if j == 0 and getattr(I, 'summarise_loops', True):
        summ = _append_only_summary(I, st, env, s, star, frame)
        if summ is not None:
            return [summ]
    if j == 0 and star.nonempty:
        branches = [(st, True)]
    else:
        branches = I.decide(st, ('more', star.tag, j), BOOL, frozenset([True]))
    for (s2, more) in branches:
        e2 = env if s2 is st else dict(env)
        if not more:
            out.append((s2, e2, None))
            continue
        el = _fresh_elem(I, s2, star, j)
        if star.cls == '@num':
            el = I.symbol('%s[%d]' % (star.tag, j))
        s2.ev('loop-iter', frame.qual(), star.tag, j)
        for (s3, e3, oc) in _body(I, s2, e2, s, el, frame):
            if oc is not None:
                out.append((s3, e3, oc))
            else:
                out.extend(star_iterate(I, s3, e3, s, star, j + 1, frame))
    return out


def whileloop(I, st, env, s, frame):
    out = []
    K = I.unroll + 1

    def rec(s0, e0, n):
        for (s1, b) in I.truth(s0, e0, s.test, frame):
            e1 = e0 if s1 is s0 else dict(e0)
            if isinstance(b, Raised):
                out.append((s1, e1, ('raise', b)))
            elif not b:
                if s.orelse:
                    out.extend(I.block(s1, e1, s.orelse, frame))
                else:
                    out.append((s1, e1, None))
            elif n >= K:
                s1.flags.add(('loop-truncated', frame.qual(), s.lineno))
                out.append((s1, e1, None))
            else:
                for (s2, e2, oc) in I.block(s1, e1, s.body, frame):
                    if oc is None or oc[0] == 'continue':
                        rec(s2, e2, n + 1)
                    elif oc[0] == 'break':
                        out.append((s2, e2, None))
                    else:
                        out.append((s2, e2, oc))
    rec(st, env, 0)
    return out


# ---------------------------------------------------------------------- parameter-word loops
_ALPHA = {}


def _alphabet(body):
    key = id(body)
    if key in _ALPHA:
        return _ALPHA[key]
    r = _ALPHA[key] = _alphabet_compute(body)
    return r


def _alphabet_compute(body):
    letters = set()
    for n in ast.walk(ast.Module(body=body, type_ignores=[])):
        if isinstance(n, ast.Constant) and isinstance(n.value, str) and len(n.value) == 1 and n.value.isalpha():
            letters.add(n.value.upper())
    return sorted(letters)


def param_value(I, src, letter):
    """letter may carry an occurrence suffix ('X#2' = second X word of the command)"""
    key = ('param', vkey(src), letter)
    if letter == '':
        # the trailing ('', <string argument>) item parameterItems yields when the command has a value-less word or text
        # that is not a word: present ('F') or absent, never a number
        return key, SStr('strarg(%s)' % (getattr(src, 'tag', None) or repr(vkey(src))), getattr(src, 'deps', ()), nonempty=True)
    return key, Choice([({key: frozenset(['F'])}, NONE),
                        ({key: frozenset(['V'])}, I.symbol('p:%s' % letter, kind='param', letter=letter.split('#')[0]))])


def param_loop(I, st, env, s, it, frame):
    """one abstract iteration per parameter letter the body distinguishes (plus a generic other letter);
    every letter is absent / present without value / present with a value.  Iterations whose body only
    assigns locals are merged into lazily decided Choice values instead of forking the path."""
    # letters the loop can distinguish: those named in its body and - because the body may be table driven (dict lookups,
    # getattr with a computed name, helper calls) - every parameter letter named anywhere in the module
    alphabet = sorted(set(_alphabet(s.body)) | set(_module_letters(I, frame.mod)))
    letters = []
    for L in alphabet + ['?']:
        letters.append(L)
        if L in getattr(I, 'param_dups', ()):
            letters.append(L + '#2')        # a second occurrence of the same word, later in the command
    letters.append('')          # the string-argument item comes last
    cur = [(st, env, None)]
    for L in letters:
        nxt = []
        for (s1, e1, oc) in cur:
            if oc is not None:
                nxt.append((s1, e1, oc))
                continue
            nxt.extend(_param_iteration(I, s1, e1, s, it, L, frame))
        cur = nxt
    return cur


def _param_iteration(I, st, env, s, it, L, frame):
    key, val = param_value(I, it.src, L)
    if L == '' and key not in st.dom:
        st.dom[key] = PSTRARG
    cur = st.dom.get(key, PSTATUS)
    present = cur & frozenset(['F', 'V'])
    if not present:
        return [(st, env, None)]
    elem = TupleV([Str(L.split('#')[0]), val])
    # speculative run of the body under "present"
    s0 = st.clone()
    s0.dom[key] = present
    e0 = dict(env)
    results = _body(I, s0, e0, s, elem, frame)
    pure = True
    map_changes = {}        # oid -> set of item indexes whose value differs in some result (same keys, same order)
    for (s2, e2, oc) in results:
        extra = [ev for ev in s2.trace[len(st.trace):] if ev[0] not in ('map-replace', 'call')]
        if oc is not None or extra or s2.heap != st.heap or s2.seqs != st.seqs or s2.flags != st.flags:
            pure = False
            break
        if s2.maps != st.maps:
            for oid, items in s2.maps.items():
                old = st.maps.get(oid)
                if old is items or old == items:
                    continue
                if old is None and oid.startswith('const:'):
                    st.maps[oid] = items        # read-only module table, built on first use
                    st.cls[oid] = 'dict'
                    continue
                if old is None or len(old) != len(items):
                    pure = False
                    break
                for ix, (a, b) in enumerate(zip(old, items)):
                    if a == b:
                        continue
                    from .merge import is_data
                    if a[0] != 'kv' or b[0] != 'kv' or vkey(a[1]) != vkey(b[1]) or not is_data(a[2]) or not is_data(b[2]):
                        pure = False
                        break
                    map_changes.setdefault(oid, set()).add(ix)
                if not pure:
                    break
            if not pure:
                break
    if pure and map_changes:
        # a table-driven word loop: the value stored under an existing key becomes a lazily decided value
        for oid, ixs in map_changes.items():
            items = list(st.maps[oid])
            for ix in ixs:
                alts = []
                for (s2, e2, oc) in results:
                    delta = {k: v for k, v in s2.dom.items() if st.dom.get(k) != v and k[0] != 'sgn'}
                    delta[key] = s2.dom.get(key, present)
                    alts.append((delta, s2.maps[oid][ix][2]))
                if 'A' in cur:
                    alts.append(({key: frozenset(['A'])}, items[ix][2]))
                merged = _merge_alts(alts)
                items[ix] = ('kv', items[ix][1], merged[0][1] if len(merged) == 1 and not merged[0][0] else Choice(merged))
            st.maps[oid] = tuple(items)
    if pure:
        changed = set()
        for (s2, e2, oc) in results:
            for k in set(e2) | set(env):
                if k in (getattr(s.target, 'id', None),):
                    continue
                if e2.get(k) is not env.get(k):
                    changed.add(k)
        tnames = set(n.id for n in ast.walk(s.target) if isinstance(n, ast.Name))
        changed -= tnames
        if not changed:
            return [(st, env, None)]
        alts = {}
        for (s2, e2, oc) in results:
            delta = {k: v for k, v in s2.dom.items() if st.dom.get(k) != v and k[0] != 'sgn'}
            delta[key] = s2.dom.get(key, present)
            for k in changed:
                alts.setdefault(k, []).append((delta, e2.get(k, env.get(k))))
        if 'A' in cur:
            for k in changed:
                alts[k].append(({key: frozenset(['A'])}, env.get(k)))
        for k in changed:
            env[k] = Choice(_merge_alts(alts[k]))
        for n in tnames:
            env.pop(n, None)
        return [(st, env, None)]
    # effects in the body: fork for real
    out = []
    if 'A' in cur:
        sa = st.clone()
        sa.restrict(key, frozenset(['A']))
        out.append((sa, dict(env), None))
        I.stats['forks'] += 1
    for (s2, e2, oc) in results:
        s2.declog.append((key, s2.dom.get(key)))
        out.append((s2, e2, oc))
    return out


def _merge_alts(alts):
    """merge alternatives with the identical value whose constraints differ in exactly one key"""
    alts = list(alts)
    changed = True
    while changed:
        changed = False
        for i in range(len(alts)):
            for j in range(i + 1, len(alts)):
                (c1, v1), (c2, v2) = alts[i], alts[j]
                if v1 is not v2 and vkey(v1) != vkey(v2):
                    continue
                if set(c1) != set(c2):
                    continue
                diff = [k for k in c1 if c1[k] != c2[k]]
                if len(diff) == 1:
                    c = dict(c1)
                    c[diff[0]] = c1[diff[0]] | c2[diff[0]]
                    alts[i] = (c, v1)
                    del alts[j]
                    changed = True
                    break
                if not diff:
                    del alts[j]
                    changed = True
                    break
            if changed:
                break
    return alts


# ---------------------------------------------------------------------- comprehensions
_MODULE_LETTERS = {}


def _module_letters(I, mod):
    if mod not in _MODULE_LETTERS:
        letters = set()
        tree = I.m.modules.get(mod)
        if tree is not None:
            for n in ast.walk(tree):
                if isinstance(n, ast.Constant) and isinstance(n.value, str) and len(n.value) == 1 and n.value.isalpha():
                    letters.add(n.value.upper())
        _MODULE_LETTERS[mod] = sorted(letters)
    return _MODULE_LETTERS[mod]


def _param_comprehension(I, st, env, e, g, it, frame):
    """comprehension over the words of a command: one optional element per letter the module distinguishes"""
    from .values import Opt
    elems = []
    cur_state = st
    letters = []
    for L in _module_letters(I, frame.mod) + ['?']:
        letters.append(L)
        if L in getattr(I, 'param_dups', ()):
            letters.append(L + '#2')
    for L in letters + ['']:
        key, val = param_value(I, it.src, L)
        if L == '' and key not in cur_state.dom:
            cur_state.dom[key] = PSTRARG
        status = cur_state.dom.get(key, PSTATUS)
        present = status & frozenset(['F', 'V'])
        if not present:
            continue
        # the filter and the element may depend on whether the word carries a value: evaluate per status and group the
        # statuses that give the same element
        groups = []         # [(set of statuses, element value)]
        for stt in sorted(present):
            sc = cur_state.clone()
            sc.dom[key] = frozenset([stt])
            e2 = dict(env)
            one = NONE if (stt == 'F' and L != '') else (val if L == '' else I.symbol('p:%s' % L, kind='param', letter=L.split('#')[0]))
            res = I.assign(sc, e2, g.target, TupleV([Str(L.split('#')[0]), one]), frame)
            if len(res) != 1 or res[0][2] is not None:
                raise Unsupported('comprehension over command words: complex target in %s' % frame.qual())
            s2, e3, _oc = res[0]
            keep = True
            for c in g.ifs:
                r = I.truth(s2, e3, c, frame)
                if len(r) != 1 or isinstance(r[0][1], Raised):
                    raise Unsupported('comprehension over command words: undecided filter in %s' % frame.qual())
                s2 = r[0][0]
                keep = keep and r[0][1]
            if not keep:
                continue
            r = I.eval(s2, e3, e.elt, frame)
            if len(r) != 1 or isinstance(r[0][1], Raised) or len(r[0][0].trace) != len(cur_state.trace):
                raise Unsupported('comprehension over command words: element expression forks or has effects in %s' % frame.qual())
            v = r[0][1]
            for grp in groups:
                if vkey(grp[1]) == vkey(v):
                    grp[0].add(stt)
                    break
            else:
                groups.append((set([stt]), v))
        if len(groups) == 2 and all(isinstance(gv, TupleV) and len(gv.elems) == 2 for _gs, gv in groups) and \
                vkey(groups[0][1].elems[0]) == vkey(groups[1][1].elems[0]):
            # (label, None) for the flag form and (label, number) for the valued form: one element with a lazily decided value
            lazy = Choice([({key: frozenset(gs)}, gv.elems[1]) for gs, gv in groups])
            groups = [(groups[0][0] | groups[1][0], TupleV([groups[0][1].elems[0], lazy]))]
        for gs, v in groups:
            allowed = frozenset(gs)
            elems.append(v if (allowed >= status) else Opt(key, allowed, v))
    return [(st, IterV(elems, 'words')) if isinstance(e, ast.GeneratorExp) else _as_list(st, elems, frame)]


def _as_list(st, elems, frame):
    oid = st.new_oid('list', 'listcomp@%s' % frame.fn.name)
    st.seqs[oid] = tuple(elems)
    return (st, Obj(oid))


def listcomp(I, st, env, e, frame):
    if len(e.generators) != 1 or e.generators[0].is_async:
        raise Unsupported('nested comprehension in %s' % frame.qual())
    g = e.generators[0]
    out = []
    for (s1, it) in I.evalf(st, env, g.iter, frame):
        if isinstance(it, Raised):
            out.append((s1, it))
            continue
        if isinstance(it, ParamIter):
            out.extend(_param_comprehension(I, s1, env, e, g, it, frame))
            continue
        elems = _elements(I, s1, it, frame, e)
        tname = _norm(g.target)
        shape = _norm(e.elt).replace(tname, '_')
        conds = [_norm(c).replace(tname, '_') for c in g.ifs]
        res = []
        cur = [(s1, [])]
        for el in elems:
            nxt = []
            for (s2, acc) in cur:
                if isinstance(acc, Raised):
                    nxt.append((s2, acc))
                    continue
                if isinstance(el, Star):
                    tag = 'map(%s%s over %s)' % (shape, (' if ' + ' and '.join(conds)) if conds else '', el.tag)
                    nxt.append((s2, acc + [Star(tag, None, el.nonempty and not conds)]))
                    continue
                e2 = dict(env)
                for (s3, e3, oc) in I.assign(s2, e2, g.target, el, frame):
                    keep = [(s3, True)]
                    for c in g.ifs:
                        k2 = []
                        for (s4, b) in keep:
                            if b is True:
                                k2.extend(I.truth(s4, e3, c, frame))
                            else:
                                k2.append((s4, b))
                        keep = k2
                    for (s4, b) in keep:
                        if isinstance(b, Raised):
                            nxt.append((s4, b))
                        elif not b:
                            nxt.append((s4, acc))
                        else:
                            for (s5, v) in I.eval(s4, e3, e.elt, frame):
                                nxt.append((s5, v if isinstance(v, Raised) else acc + [v]))
            cur = nxt
        for (s2, acc) in cur:
            if isinstance(acc, Raised):
                out.append((s2, acc))
            else:
                oid = s2.new_oid('list', 'listcomp@%s' % frame.fn.name)
                s2.seqs[oid] = tuple(acc)
                out.append((s2, Obj(oid)))
    return out


APPEND_EVENTS = ('call', 'seq-append', 'seq-extend', 'buildCommand', 'parser-read', 'parse', 'stringify', 'loop-iter')


def _append_only_summary(I, st, env, s, star, frame):
    """a loop over an unknown run whose generic iteration only appends to one list (no other effect, no
    early exit) is summarised as appending one unknown run; the per-element decisions are dropped"""
    if s.orelse:
        return None
    s0 = st.clone()
    e0 = dict(env)
    el = _fresh_elem(I, s0, star, 0, '~')
    if star.cls == '@num':
        el = I.symbol('%s[~]' % star.tag)
    try:
        results = _body(I, s0, e0, s, el, frame)
    except Unsupported:
        return None
    nbase = len(st.trace)
    tnames = set(n.id for n in ast.walk(s.target) if isinstance(n, ast.Name))
    # names the body itself assigns (helper locals such as a hoisted isinstance test): after the loop they hold the value of
    # the last iteration, which the summary does not know
    # - only names that do not exist before the loop qualify (a name that does is carried from iteration to iteration, like
    # the running angle of planArc), and only for loops over a container (not over a range of numbers)
    bnames = set(n.id for b in s.body for n in ast.walk(b) if isinstance(n, ast.Name) and isinstance(n.ctx, ast.Store))
    bnames = set(k for k in bnames if k not in env) if star.cls != '@num' else set()
    target = None
    suffixes = []
    for (s2, e2, oc) in results:
        for oid, items in s2.maps.items():
            if oid.startswith('const:') and oid not in st.maps:
                st.maps[oid] = items
                st.cls[oid] = 'dict'
        if oc is not None or s2.flags != st.flags or s2.maps != st.maps:
            return None
        for ev in s2.trace[nbase:]:
            if ev[0] not in APPEND_EVENTS:
                return None
        for k, v in s2.heap.items():
            if st.heap.get(k) is not v and s2.cls.get(k[0]) != 'GcodeParser':
                if k in st.heap:
                    return None
        for k in set(e2) | set(env):
            if k in tnames or k in bnames:
                continue
            if e2.get(k) is not env.get(k):
                return None
        changed = [oid for oid in s2.seqs if st.seqs.get(oid) != s2.seqs[oid] and oid in st.seqs]
        if s2.n != st.n:
            return None
        if len(changed) > 1:
            return None
        if changed:
            oid = changed[0]
            if target is None:
                target = oid
            elif target != oid:
                return None
            old = st.seqs[oid]
            cur = s2.seqs[oid]
            if cur[:len(old)] != old:
                return None
            suffixes.append(cur[len(old):])
        else:
            suffixes.append(())
    if target is None:
        return None
    # adopt lazily materialised fields (deterministic) and the scratch parser's state from one iteration
    s2 = results[0][0]
    for k, v in s2.heap.items():
        if k not in st.heap or s2.cls.get(k[0]) == 'GcodeParser':
            st.heap[k] = v
    for oid, c in s2.cls.items():
        st.cls.setdefault(oid, c)
    for oid, v in s2.seqs.items():
        st.seqs.setdefault(oid, v)
    for oid, v in s2.maps.items():
        st.maps.setdefault(oid, v)
    nonempty = star.nonempty and all(len(x) > 0 for x in suffixes)
    tag = 'each(%s)' % star.tag
    st.seqs[target] = st.seqs[target] + (Star(tag, None, nonempty),)
    st.ev('loop-summary', frame.qual(), star.tag, tuple(suffixes), target)
    I.stats['loop-summaries'] = I.stats.get('loop-summaries', 0) + 1
    for k in bnames - tnames:
        env[k] = Opaque('loop-local:%s' % k)
    return (st, env, None)
