"""C07 - commands synthesised by the filter are well-formed plain-decimal G-code."""
import re

from .handlers import run_path_rules
from .entries import make_interp, run_state_method, new_handlers_state
from .pathfacts import Facts, live_alts, classify
from .values import NONE, Num, Str, SStr, Cat, Obj, TupleV, Opaque, Choice, Star, vkey
from .absint import Raised
from .model import AnalysisError
from .state import State

PROP = 'C07'
SKELETON = re.compile(r'^[GM]\d+(?: [A-Z]\{\})*(?: \{\})?$')
PLAIN_SPECS = re.compile(r'^[-+ #0,]*\d*(?:\.\d+)?[fFd]$')


HELPERS = {}


def declare(c):
    c.rule('C07.R1', 'every synthesised command is one G/M code followed by distinct single-letter words', floor=4)
    c.rule('C07.R2', 'every numeric word is rendered by an exponent-free formatter (fixed-point format spec, integer, or a '
                     'helper that rules the exponent form out)', floor=8)
    c.rule('C07.R3', 'merged deferred commands: one word per recorded letter, values rendered exponent-free', floor=2)


def guarded_alts(st, v, acc=None):
    """(guard, value) pairs of a nested Choice, guards accumulated and checked against the path decisions"""
    acc = acc or {}
    if not isinstance(v, Choice):
        return [(acc, v)]
    out = []
    for cons, x in v.alts:
        cur = dict(acc)
        ok = True
        for k, allowed in cons.items():
            d = st.dom.get(k)
            if d is not None and not (d & allowed):
                ok = False
                break
            if k in cur:
                both = cur[k] & allowed
                if not both:
                    ok = False
                    break
                cur[k] = both
            else:
                cur[k] = allowed
        if ok:
            out.extend(guarded_alts(st, x, cur))
    return out


def _excluded_exponent(st, guard, text):
    """the text was returned only where tests for 'e' and 'E' in it were both false"""
    for marker in ('e', 'E'):
        key = ('in', ('str', marker), vkey(text))
        d = guard.get(key, st.dom.get(key))
        if d != frozenset([False]):
            return False
    return True


def _number_surgery(v):
    """an opaque string that was derived from the rendering of a number by a string operation the analysis does not model
    (slice, replace, strip of characters ...): sign, digits or the decimal point may have been lost on the way"""
    return "('num'" in v.tag or "'fmt', ('opaque', \"Decimal(" in v.tag


def plain_decimal_proof(st, part, guard=None):
    """True when the formatted part cannot contain exponent notation"""
    _k, value, spec, conv = part
    for g, v in guarded_alts(st, value, guard):
        if isinstance(v, Cat):
            # text produced elsewhere (helper): str(x) is fine only where an exponent marker was ruled out
            if len(v.parts) == 1 and not isinstance(v.parts[0], str) and v.parts[0][3] in ('str', 'repr') and \
                    not v.parts[0][2]:
                inner = v.parts[0][1]
                if all(isinstance(x, Num) and x.isint for _g, x in guarded_alts(st, inner, g)):
                    continue
                if _excluded_exponent(st, g, v):
                    continue
                return False
            for p in v.parts:
                if not isinstance(p, str) and not plain_decimal_proof(st, p, g):
                    return False
            continue
        if isinstance(v, SStr) and _number_surgery(v):
            return False        # text cut out of / patched into a rendered number: not proven to read back as the number
        if isinstance(v, (Str, SStr)):
            continue
        if isinstance(v, Opaque) and v.tag.startswith('Decimal('):
            if spec and PLAIN_SPECS.match(spec):
                continue
            return False
        if isinstance(v, Num):
            if v.isint:
                continue
            if spec and PLAIN_SPECS.match(spec):
                continue
            if conv.startswith('fn:') and HELPERS.get(conv[3:]):
                continue        # rendered by a helper whose every return was proven exponent-free
            return False
        if v is NONE:
            continue
        return False
    return True


def check_template(col, st, cat, where, label):
    skel = cat.skeleton()
    col.instance('C07.R1', skel)
    if not SKELETON.match(skel):
        col.report('C07.R1', where, 'template "%s"' % skel, 'the synthesised command is not one code followed by letter words')
    else:
        letters = re.findall(r' ([A-Z])\{', skel)
        if len(letters) != len(set(letters)):
            col.report('C07.R1', where, 'template "%s"' % skel, 'a parameter letter occurs twice in a synthesised command')
    for part in cat.args():
        col.instance('C07.R2', (skel, part[2], part[3]))
        if not plain_decimal_proof(st, part):
            idx = cat.parts.index(part)
            prev = cat.parts[idx - 1] if idx > 0 and isinstance(cat.parts[idx - 1], str) else ''
            letter = prev[-1:] if prev else '?'
            surgery = any(isinstance(y, SStr) and _number_surgery(y) for _g, y in guarded_alts(st, part[1]))
            if surgery:
                col.report('C07.R2', where, 'template "%s" word %s' % (skel, letter),
                           'the text of the %s word is cut out of (or patched into) the rendering of the number by a string '
                           'operation: it is not proven to read back as the intended value (a sign, a digit or the decimal '
                           'point can be lost)' % letter)
                continue
            col.report('C07.R2', where, 'template "%s" word %s' % (skel, letter),
                       'the %s value is formatted with %s: a float whose repr uses exponent notation (1e-05, 1e+16) is '
                       'emitted as such, which firmware reads as a different number'
                       % (letter, 'str()/{}' if not part[2] else 'spec "%s"' % part[2]))


def prove_helpers(col, I):
    """every number-formatting helper of the package: all of its returns must be exponent-free"""
    for (mod, name), fn in sorted(I.m.functions.items()):
        from .values import FuncV
        from .calls import is_number_formatter
        f = FuncV(mod, fn)
        if not is_number_formatter(I, f):
            continue
        ok = True
        for (s, v) in I._formatters[(mod, name, 'results')]:
            col.instance('C07.R2', ('helper', name, repr(v)[:40]))
            if not plain_decimal_proof(s, ('fmt', v, '', '')):
                ok = False
        HELPERS[name] = ok
        if not ok:
            col.report('C07.R2', name, 'helper %s may return exponent notation' % name,
                       'the formatting helper returns str()/repr() of a float on a path where an exponent marker was not '
                       'ruled out')


def path_rules(col, gcode, paths, I, own=True):
    if own:
        declare(col)
    prove_helpers(col, I)
    seen = set()
    for p in paths:
        f = Facts(p, I)
        if f.kind != 'list':
            continue
        for e in f.elems:
            for a in live_alts(p.st, e):
                if isinstance(a, Cat):
                    key = (a.skeleton(), tuple((x[2], x[3]) for x in a.args()), tuple(type(y).__name__ for x in a.args() for y in live_alts(p.st, x[1])))
                    if key in seen:
                        continue
                    seen.add(key)
                    where = 'RetractionState._addCommands' if a.skeleton().startswith(('G1 ', 'G10', 'G11')) or \
                        (a.skeleton() == 'G92 E{}' and f.pre_excluding is not True) else 'ExcludeRegionState.exitExcludedRegion'
                    if a.skeleton().startswith(('G0 ',)):
                        where = 'ExcludeRegionState.exitExcludedRegion'
                    check_template(col, p.st, a, where, gcode)


def merged_rule(ctx):
    """buildCommand / parameterDict setter with a symbolic float value"""
    from .rules_c18 import parser_interp, GP
    I = parser_interp(ctx.model)
    I.merge_ifs = False
    prove_helpers(ctx, I)
    from .rules_c18 import stale_state
    val = I.symbol('VALUE_S')
    # the parser instance is shared and re-used: it starts out holding whatever the previous command left behind
    res = []
    for kwargs, want in (({'S': val, 'P': Num(I.symbol('VALUE_P').p, False), 'T': NONE}, r'^\S+ S\{\} P\{\} T$'), ({}, r'^[^ ]+$')):
        st = stale_state()
        for (s, v) in I.run_method(st, GP, 'buildCommand', Obj('GP'), [Str('M204')], dict(kwargs)):
            res.append((s, v, want, bool(kwargs)))
    n = 0
    for (s, v, want, has_params) in res:
        if isinstance(v, Raised) or not isinstance(v, Cat):
            continue        # configured code that is not a G/M/T code: rejected or rendered as raw text
        n += 1
        ctx.instance('C07.R3', repr(v)[:60])
        skel = v.skeleton()
        stale = [part for part in v.args() if 'STALE.' in repr(part[1])]
        if stale:
            ctx.report('C07.R3', 'GcodeParser.buildCommand', 'merged command carries text of an earlier command',
                       'buildCommand renders "%s" where a spliced part is left over from whatever the shared parser parsed or '
                       'built before (%r): a parameterless merged command inherits foreign parameters' % (skel, stale[0][1]))
            continue
        if not re.match(want, skel):
            ctx.report('C07.R3', 'GcodeParser.buildCommand', 'merged command "%s"' % skel,
                       'expected the code followed by one word per recorded letter (value-less letters as flags)'
                       if has_params else 'expected the bare code for a merged command without parameters')
        for part in v.args():
            ctx.instance('C07.R2', ('merged', part[2], part[3]))
            if not plain_decimal_proof(s, part):
                ctx.report('C07.R3', 'GcodeParser.parameterDict', 'merged parameter value',
                           'a merged parameter value is formatted with str(): exponent notation can reach the printer '
                           '(M204 S1e-05)')
    if n == 0:
        raise AnalysisError('buildCommand has no normal path')


def run(ctx, tier):
    declare(ctx)
    run_path_rules(ctx, __name__, 'path_rules', ['G0', 'G10', 'G11'], unroll=1)
    merged_rule(ctx)
    ctx.rule('C07.R4', 'firmware retract / recover commands are "G10" / "G11" plus the parameter text of the original command: the '
                       'extraction regex matches every command text the hooks can pass (a non-match splices the whole command in)', floor=1)
    from .rules_c05 import regex_rule
    regex_rule(ctx, 'C07.R4')
    # "a firmware-style reading yields exactly the intended values": the values themselves are decided by the algebra of the
    # generated retract / recover pair (C04.R3 / R4) and by the exit rules of C03 - premises here
    ctx.rule('C07.R6', 'the generated G92 E / G1 E pair reads back as the intended values in the units in force: G92 E is the logical '
                       'value of (tracked E + amount), G1 E the logical tracked E, the tracked position is restored (C04.R3 / R4)', floor=2)
    from .rules_c04 import addcommands_rule
    addcommands_rule(ctx, 'C07.R6', 'C07.R6')
    from . import rules_c03
    from .pathfacts import S_OID as _S
    ctx.rule('C03.R1', 'C03: exit composition - pending, exit script, G92 E, then Z before XY iff rising / after iff falling / absent iff equal', floor=6)
    ctx.rule('C03.R4', 'C03: every word of the exit commands is the logical value of the tracked native position in the current frame', floor=6)
    rules_c03.exit_rules(ctx, make_interp(ctx.model), {('fld', _S, 'excluding'): [True]}, 'exitExcludedRegion')
    # the merged deferred command is built from the parameter map kept for its code: that map belongs to one code and one
    # episode (C06.R6 mode semantics as premise - a map shared between codes puts foreign words into the command)
    from . import rules_c06
    ctx.rule('C06.R6', 'C06: mode semantics - first keeps the first instance, last / merge move the entry to the end, merge keeps a '
                       'parameter map of its own per code (latest value of every parameter), exclude stores nothing', floor=4)
    rules_c06.modes_rule(ctx, make_interp(ctx.model))
    ctx.rule('C07.R5', 'the parameter text spliced into a generated G10 / G11 is the parameter text of one command of the file: '
                       'RetractionState.originalCommand is assigned in the constructor only, never extended or rewritten (two '
                       'commands\' parameters glued together repeat letters)', floor=1)
    from . import census
    stores = census.attr_stores(ctx.model, 'originalCommand')
    if not stores:
        raise AnalysisError('anchor vanished: no assignment of originalCommand')
    for (q, val, line, mod, aug) in stores:
        ctx.instance('C07.R5', (q, line))
        if q != 'RetractionState.__init__' or aug:
            ctx.report('C07.R5', q, 'originalCommand %s outside the constructor' % ('extended' if aug else 'assigned'),
                       'the remembered command text is changed after the record was created; _addCommands splices its parameter '
                       'text into the generated G10 / G11, which then no longer is one code followed by distinct letters',
                       line=line)
    ctx.assume('values are finite (inf/nan need value ranges and are not decided)')
    ctx.assume('the parameter text re-used for firmware retractions comes from the incoming command (already valid G-code)')
