"""Abstract values of the path-sensitive abstract interpreter (component D)."""
from .poly import Poly


class _None(object):
    def __repr__(self):
        return 'None'

    def key(self):
        return 'None'


NONE = _None()


class Num(object):
    """number in polynomial normal form over named symbols"""
    __slots__ = ('p', 'isint')

    def __init__(self, p, isint=False):
        self.p = p
        self.isint = isint

    @staticmethod
    def const(c):
        return Num(Poly.const(c), isinstance(c, int) and not isinstance(c, bool))

    @staticmethod
    def sym(name):
        return Num(Poly.sym(name))

    def is_const(self):
        return self.p.is_const()

    def value(self):
        c = self.p.const_value()
        if c.denominator == 1 and self.isint:
            return int(c)
        return float(c) if c.denominator != 1 or not self.isint else int(c)

    def key(self):
        return ('num', self.p.key())

    def __repr__(self):
        return 'Num(%r)' % (self.p,)


class Str(object):
    __slots__ = ('s',)

    def __init__(self, s):
        self.s = s

    def key(self):
        return ('str', self.s)

    def __repr__(self):
        return 'Str(%r)' % self.s


class SStr(object):
    """opaque string; tag names its origin (CMD = the incoming command)"""
    __slots__ = ('tag', 'deps', 'nonempty')

    def __init__(self, tag, deps=(), nonempty=False):
        self.tag = tag
        self.deps = frozenset(deps) | {tag}
        self.nonempty = nonempty

    def key(self):
        return ('sstr', self.tag)

    def __repr__(self):
        return 'SStr(%s)' % self.tag


class Cat(object):
    """string built from parts: concrete str | ('fmt', value, spec, conv)"""
    __slots__ = ('parts',)

    def __init__(self, parts):
        out = []
        for p in parts:
            if isinstance(p, str):
                if not p:
                    continue
                if out and isinstance(out[-1], str):
                    out[-1] += p
                    continue
            out.append(p)
        self.parts = tuple(out)

    def skeleton(self):
        return ''.join(p if isinstance(p, str) else '{}' for p in self.parts)

    def args(self):
        return [p for p in self.parts if not isinstance(p, str)]

    def key(self):
        return ('cat', tuple(p if isinstance(p, str) else ('fmt', vkey(p[1]), p[2], p[3]) for p in self.parts))

    def __repr__(self):
        return 'Cat(%r)' % (self.skeleton(),)


class Obj(object):
    __slots__ = ('oid',)

    def __init__(self, oid):
        self.oid = oid

    def key(self):
        return ('obj', self.oid)

    def __repr__(self):
        return '<%s>' % self.oid


class TupleV(object):
    __slots__ = ('elems',)

    def __init__(self, elems):
        self.elems = tuple(elems)

    def key(self):
        return ('tuple', tuple(vkey(e) for e in self.elems))

    def __repr__(self):
        return 'T%r' % (self.elems,)


class Star(object):
    """unknown-length run of elements inside an abstract sequence"""
    __slots__ = ('tag', 'cls', 'nonempty')

    def __init__(self, tag, cls=None, nonempty=False):
        self.tag = tag
        self.cls = cls
        self.nonempty = nonempty

    def key(self):
        return ('star', self.tag, self.nonempty)

    def __repr__(self):
        return 'Star(%s%s)' % (self.tag, '+' if self.nonempty else '*')


class Choice(object):
    """lazily decided value: alternatives guarded by domain constraints {key: frozenset}"""
    __slots__ = ('alts',)

    def __init__(self, alts):
        self.alts = tuple(alts)

    def key(self):
        return ('choice', tuple((tuple(sorted((repr(k), tuple(sorted(map(repr, v)))) for k, v in c.items())), vkey(v))
                                for c, v in self.alts))

    def __repr__(self):
        return 'Choice(%s)' % ' | '.join(repr(v) for _, v in self.alts)


class Opaque(object):
    """value of a kind the analysis does not model (external object, unknown result)"""
    __slots__ = ('tag', 'deps')

    def __init__(self, tag, deps=()):
        self.tag = tag
        self.deps = frozenset(deps)

    def key(self):
        return ('opaque', self.tag)

    def __repr__(self):
        return 'Opaque(%s)' % self.tag


class Bound(object):
    __slots__ = ('recv', 'cls', 'fn')

    def __init__(self, recv, cls, fn):
        self.recv = recv
        self.cls = cls
        self.fn = fn

    def key(self):
        return ('bound', vkey(self.recv), self.cls, self.fn.name)

    def __repr__(self):
        return 'Bound(%s.%s)' % (self.cls, self.fn.name)


class ClassRef(object):
    __slots__ = ('name',)

    def __init__(self, name):
        self.name = name

    def key(self):
        return ('class', self.name)

    def __repr__(self):
        return 'Class(%s)' % self.name


class ExtFn(object):
    """external callable: module function, builtin, method of a non-modelled receiver"""
    __slots__ = ('name', 'recv')

    def __init__(self, name, recv=None):
        self.name = name
        self.recv = recv

    def key(self):
        return ('ext', self.name, vkey(self.recv) if self.recv is not None else None)

    def __repr__(self):
        return 'Ext(%s)' % self.name


class ModuleRef(object):
    __slots__ = ('name',)

    def __init__(self, name):
        self.name = name

    def key(self):
        return ('module', self.name)

    def __repr__(self):
        return 'Module(%s)' % self.name


class IterV(object):
    """iterable with an explicit abstract element sequence (elements may be Star)"""
    __slots__ = ('elems', 'what')

    def __init__(self, elems, what='iter'):
        self.elems = tuple(elems)
        self.what = what

    def key(self):
        return ('iter', self.what, tuple(vkey(e) for e in self.elems))

    def __repr__(self):
        return 'Iter(%s,%r)' % (self.what, self.elems)


class ParamIter(object):
    """the (LETTER, float|None) pairs of a parsed command (summary of GcodeParser.parameterItems)"""
    __slots__ = ('src',)

    def __init__(self, src):
        self.src = src

    def key(self):
        return ('paramiter', vkey(self.src))

    def __repr__(self):
        return 'ParamIter(%r)' % (self.src,)


class Opt(object):
    """element of a sequence that is only there when a decision key takes one of the allowed values
    (a parameter word that may or may not be present in the command)"""
    __slots__ = ('key_', 'allowed', 'value')

    def __init__(self, key_, allowed, value):
        self.key_ = key_
        self.allowed = frozenset(allowed)
        self.value = value

    def key(self):
        return ('opt', repr(self.key_), tuple(sorted(self.allowed)), vkey(self.value))

    def __repr__(self):
        return 'Opt(%r)' % (self.value,)


class GenV(object):
    """unevaluated generator expression with the environment it closes over"""
    __slots__ = ('node', 'env', 'frame')

    def __init__(self, node, env, frame):
        self.node = node
        self.env = env
        self.frame = frame

    def key(self):
        return ('genexp', id(self.node))

    def __repr__(self):
        return 'GenV@%d' % getattr(self.node, 'lineno', 0)


class FuncV(object):
    """module-level function or lambda of the analysed package"""
    __slots__ = ('mod', 'fn', 'closure', 'cls')

    def __init__(self, mod, fn, closure=None, cls=None):
        self.mod = mod
        self.fn = fn
        self.closure = closure      # snapshot of the enclosing function's variables (nested def / lambda)
        self.cls = cls              # class of the enclosing method (for frame naming)

    def key(self):
        return ('func', self.mod, getattr(self.fn, 'name', 'lambda'))


def vkey(v):
    if v is True or v is False:
        return v
    if isinstance(v, (str, int, float)) or v is None:
        return v
    return v.key()


def deps_of(v, symdeps=None):
    """set of provenance tags a value depends on (symbols for numbers, tags for strings)"""
    if isinstance(v, Num):
        out = set()
        for s in v.p.symbols():
            out.add(s)
            if symdeps is not None:
                out |= symdeps(s)
        return out
    if isinstance(v, (SStr, Opaque)):
        return set(v.deps)
    if isinstance(v, Cat):
        out = set()
        for p in v.parts:
            if not isinstance(p, str):
                out |= deps_of(p[1], symdeps)
        return out
    if isinstance(v, TupleV):
        out = set()
        for e in v.elems:
            out |= deps_of(e, symdeps)
        return out
    if isinstance(v, Choice):
        out = set()
        for c, x in v.alts:
            out |= deps_of(x, symdeps)
            for k in c:
                out.add(repr(k))
        return out
    return set()
