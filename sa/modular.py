"""Modular evaluation of pure numeric helper functions (planArc, computeArcCenterOffsets).

The helper is interpreted once in isolation from a symbolic state with symbolic parameters.  At a call
site each distinct outcome (result shape or exception) becomes one forked path; result elements that are
exactly a parameter are replaced by the actual argument, every other element by a fresh opaque number.
The helper must be effect free (checked); its own body is analysed in depth by the C09/C16 rules.
"""
from .model import AnalysisError
from .values import (NONE, Num, Str, SStr, Cat, Obj, TupleV, Star, Choice, Opaque, vkey, deps_of)
from .absint import Raised, BOOL, SIGNS

PURE_EVENTS = ('modular-call', 'modular-ret', 'call', 'yield', 'range', 'divide', 'convert', 'partial', 'loop-iter', 'loop-truncated', 'seq-append', 'seq-extend', 'loop-summary')


def summarise(I, cls, name):
    key = (cls, name)
    if key in I.modular_cache:
        return I.modular_cache[key]
    from .entries import new_handlers_state
    from .state import State
    c, fn = I.m.lookup(cls, name)
    if fn is None:
        raise AnalysisError('anchor vanished: %s.%s' % (cls, name))
    st, H, S = new_handlers_state(I)
    recv = H if cls == 'GcodeHandlers' else S
    params = [a.arg for a in fn.args.args][1:]
    args = []
    for p in params:
        if p == 'clockwise':
            args.append(I.atom(('arg', name, p)))
        else:
            args.append(I.symbol('arg:%s:%s' % (name, p), SIGNS, kind='arg', fn=name, param=p))
    saved = I.modular
    I.modular = {}          # the helper itself is interpreted in full
    try:
        res = I.run_fn(st, c, I.m.classes[c].module, fn, recv, args, {}, 1)
    finally:
        I.modular = saved
    base_heap = None
    outcomes = {}
    for (s, v) in res:
        for ev in s.trace:
            if ev[0] not in PURE_EVENTS:
                raise AnalysisError('%s.%s is not effect free (%s): cannot be summarised' % (cls, name, ev[0]))
        if isinstance(v, Raised):
            shape = ('raise', v.exc, v.info, v.where)
        else:
            elems = None
            if isinstance(v, Obj) and v.oid in s.seqs:
                elems = ('list', s.seqs[v.oid])
            elif isinstance(v, TupleV):
                elems = ('tuple', v.elems)
            else:
                raise AnalysisError('%s.%s returns an unsupported value %r' % (cls, name, v))
            sh = []
            for e in elems[1]:
                if isinstance(e, Num) and e.p.single_symbol() and e.p.single_symbol().startswith('arg:%s:' % name):
                    sh.append(('param', e.p.single_symbol().split(':')[2]))
                elif isinstance(e, Num) and e.is_const():
                    sh.append(('const', e))
                elif isinstance(e, Star):
                    sh.append(('star', e.tag))
                else:
                    sh.append(('fresh',))
            shape = (elems[0], tuple(sh))
        outcomes.setdefault(shape, 0)
        outcomes[shape] += 1
    out = {'params': params, 'outcomes': sorted(outcomes.items(), key=lambda x: repr(x[0])), 'paths': len(res)}
    I.modular_cache[key] = out
    return out


def modular_call(I, st, cls, name, recv, args, kw, frame, node):
    summ = summarise(I, cls, name)
    params = summ['params']
    if kw or len(args) != len(params):
        raise AnalysisError('modular call %s.%s with unexpected arguments' % (cls, name))
    amap = dict(zip(params, args))
    deps = set()
    for a in args:
        deps |= deps_of(a)
    I.callseq = getattr(I, 'callseq', 0)
    outs = summ['outcomes']
    results = []
    site = '%s@%s' % (name, frame.qual())
    nth = sum(1 for e in st.trace if e[0] == 'modular' and e[1] == site)
    remaining = list(range(len(outs)))
    cur = st
    cur.ev('modular-call', site, nth, name, tuple(zip(params, args)))
    for idx in remaining:
        last = idx == remaining[-1]
        if last:
            s2 = cur
        else:
            s2 = cur.clone()
            I.stats['forks'] += 1
        key = ('outcome', site, nth)
        s2.restrict(key, frozenset([idx]))
        shape = outs[idx][0]
        s2.ev('modular', site, idx, shape[0])
        if shape[0] == 'raise':
            r = Raised(shape[1], shape[2], shape[3])
            s2.ev('partial', 'summary-raise', '%s.%s' % (cls, name), shape[2], shape[3][1] if shape[3] else 0)
            results.append((s2, r))
            continue
        elems = []
        for j, e in enumerate(shape[1]):
            if e[0] == 'param':
                elems.append(amap[e[1]])
            elif e[0] == 'const':
                elems.append(e[1])
            elif e[0] == 'star':
                elems.append(Star(e[1]))
            else:
                sym = I.symbol('%s#%d.ret[%d][%d]' % (site, nth, idx, j), SIGNS, kind='summary', fn=name,
                               deps=frozenset(deps))
                elems.append(sym)
        s2.ev('modular-ret', site, nth, name, tuple(elems))
        if shape[0] == 'tuple':
            results.append((s2, TupleV(elems)))
        else:
            oid = s2.new_oid('list', '%s.ret' % name)
            s2.seqs[oid] = tuple(elems)
            results.append((s2, Obj(oid)))
    return results
