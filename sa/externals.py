"""External calls (stdlib, builtins, OctoPrint objects): explicit whitelist with an effect signature each."""
import ast
from fractions import Fraction

from .model import AnalysisError
from .values import (NONE, Num, Str, SStr, Cat, Obj, TupleV, Star, Choice, Opaque, Bound, ClassRef, ExtFn,
                     ModuleRef, IterV, ParamIter, FuncV, vkey, deps_of)
from .absint import Raised, Unsupported, BOOL, SIGNS, _norm

FORCED = frozenset(['len', 'range', 'isinstance', 'getattr', 'str', 'repr', 'float', 'int', 'bool', 'abs', 'dict',
                    'list', 'tuple', 'type', 'sorted', 'max', 'min', 'format', 'enumerate', 'zip', 'reversed', 'set',
                    'frozenset', 'dict.fromkeys'])
LAZY = frozenset(['str', 'repr', 'format', 'float', 'isinstance', 'Decimal', 'decimal.Decimal'])
POS = frozenset([1])
NONNEG = frozenset([0, 1])


def install(I):
    I.ext_consts = {
        'math.pi': lambda I: I.symbol('pi', POS, kind='const'),
        'logging.DEBUG': lambda I: Num.const(10),
        'logging.INFO': lambda I: Num.const(20),
    }
    I.ext_attr = {}
    I.materialise = lambda st, o, cls, attr: materialise(I, st, o, cls, attr)
    from . import summaries
    summaries.install(I)


_NONE_ASSIGNED = {}


def _assigned_none(I, cls, attr):
    import ast
    key = (id(I.m), cls, attr)
    if key not in _NONE_ASSIGNED:
        from . import census
        found = False
        for (q, val, line, mod, aug) in census.attr_stores(I.m, attr):
            owner = q.split('.')[0]
            if owner in I.m.mro(cls) and isinstance(val, ast.Constant) and val.value is None:
                found = True
        _NONE_ASSIGNED[key] = found
    return _NONE_ASSIGNED[key]


def materialise(I, st, o, cls, attr):
    spec = None
    for c in I.m.mro(cls):
        spec = I.fieldspec.get((c, attr))
        if spec is not None:
            break
    oid = o.oid
    name = '%s.%s' % (oid, attr)
    if spec is None:
        if attr == '_logger':
            return Opaque('logger')
        # a field the table does not know (added by a change): unknown content; it may be None when the class itself
        # assigns None to it somewhere (lazily built caches, optional collaborators)
        if _assigned_none(I, cls, attr):
            return I.maybe(('null', oid, attr), Opaque(name))
        return Opaque(name)
    if callable(spec):
        return spec(I, st, o)
    kind, _, rest = spec.partition(':')
    if kind == 'bool':
        return I.atom(('fld', oid, attr))
    if kind in ('num', 'num+', 'num0+', 'int0+'):
        signs = {'num': SIGNS, 'num+': POS, 'num0+': NONNEG, 'int0+': NONNEG}[kind]
        v = I.symbol(name, signs, kind='init', oid=oid, attr=attr, cls=cls)
        if kind == 'int0+':
            v = Num(v.p, True)
        return v
    if kind == 'num?':
        return I.maybe(('null', oid, attr), I.symbol(name, SIGNS, kind='init', oid=oid, attr=attr, cls=cls))
    if kind == 'str':
        return SStr(name, nonempty=(rest == '+'))
    if kind == 'str?':
        return I.maybe(('null', oid, attr), SStr(name, nonempty=(rest == '+')))
    if kind in ('obj', 'obj?'):
        st.cls[name] = rest
        v = Obj(name)
        return v if kind == 'obj' else I.maybe(('null', oid, attr), v)
    if kind in ('list', 'list?'):
        tag, _, ecls = rest.partition(':')
        nonempty = tag.endswith('+')
        tag = tag.rstrip('+')
        st.cls[name] = 'list'
        st.seqs[name] = (Star(tag, ecls or None, nonempty),)
        v = Obj(name)
        return v if kind == 'list' else I.maybe(('null', oid, attr), v)
    if kind == 'map':
        st.cls[name] = 'dict'
        st.maps[name] = (('star', rest),)
        return Obj(name)
    if kind == 'none':
        return NONE
    if kind == 'opaque':
        return Opaque(rest or name)
    raise AnalysisError('bad field spec %r' % (spec,))


def module_attr(I, st, o, attr):
    full = '%s.%s' % (o.name, attr)
    h = I.ext_consts.get(full)
    if h is not None:
        return h(I)
    if o.name.endswith('Events'):
        return Str('Events.' + attr)
    return ExtFn(full)


def _opaque_result(st, name, args, kw, frame, node, recv=None):
    deps = set()
    for a in list(args) + list(kw.values()):
        deps |= deps_of(a)
    if recv is not None:
        deps |= deps_of(recv)
    st.ev('ext', name, tuple(args), tuple(sorted(kw.items(), key=lambda x: x[0])), frame.qual(), node.lineno)
    return Opaque('%s(%s)' % (name, ','.join(_k(a) for a in args) +
                              (',' + ','.join('%s=%s' % (k, _k(v)) for k, v in sorted(kw.items())) if kw else '')), deps)


def _k(v):
    if isinstance(v, Str):
        return repr(v.s)
    if isinstance(v, (SStr, Opaque)):
        return v.tag
    if isinstance(v, Num):
        return repr(v.p)
    return repr(vkey(v))


def call_ext(I, st, f, args, kw, frame, node):
    name = f.name
    if name in ('json.dumps', 'json.dump') and kw.get('allow_nan') is False:
        # strict JSON: raises ValueError for NaN / Infinity anywhere in the value
        where = (frame.qual(), getattr(node, 'lineno', 0))
        s2 = st.clone()
        I.stats['forks'] += 1
        s2.ev('partial', 'json-strict', frame.qual(), name, getattr(node, 'lineno', 0))
        return [(st, _opaque_result(st, name, args, kw, frame, node)),
                (s2, Raised('ValueError', 'Out of range float values are not JSON compliant', where))]
    if name.endswith('.quantize') or name == 'quantize':
        # decimal.Decimal.quantize raises InvalidOperation when the result needs more digits than the context precision (28):
        # a partial operation like a division
        where = (frame.qual(), getattr(node, 'lineno', 0))
        s2 = st.clone()
        I.stats['forks'] += 1
        s2.ev('partial', 'quantize', frame.qual(), _norm(node) if node is not None else 'quantize', getattr(node, 'lineno', 0))
        return [(st, _opaque_result(st, name, args, kw, frame, node)),
                (s2, Raised('InvalidOperation', 'Decimal.quantize: the value needs more digits than the decimal context allows', where))]
    where = (frame.qual(), node.lineno)
    h = I.ext_handlers.get(name)
    if h is not None:
        return h(I, st, f, args, kw, frame, node)
    # ---- logger
    if name.startswith('logger.') or name.startswith('logger'):
        meth = name.split('.')[-1]
        if meth == 'isEnabledFor':
            if I.debug_logging:
                return I.decide(st, ('debug-logging',), BOOL, frozenset([True]))
            return [(st, False)]
        if meth in ('addHandler', 'removeHandler'):
            st.ev('ext', name, tuple(args), (), frame.qual(), node.lineno)
        return [(st, NONE)]
    if name in ('any', 'all') and len(args) == 1 and not kw:
        # truthiness of every element, left to right, with short circuit (Python semantics)
        from .exprs import seq_elements, truth_value
        want = (name == 'any')
        out = []
        if type(args[0]).__name__ == 'GenV':
            # any(elt for target in iter [if cond])  ==  for target in iter: if cond and elt: return True / return False
            g = args[0]
            gen = g.node.generators[0]
            if len(g.node.generators) != 1:
                raise Unsupported('nested generator expression')
            test = g.node.elt if want else ast.UnaryOp(op=ast.Not(), operand=g.node.elt)
            for c in reversed(gen.ifs):
                test = ast.BoolOp(op=ast.And(), values=[c, test]) if want else ast.BoolOp(op=ast.And(), values=[c, test])
            loop = ast.For(target=gen.target, iter=gen.iter,
                           body=[ast.If(test=test, body=[ast.Return(value=ast.Constant(value=want))], orelse=[])], orelse=[])
            tail = ast.Return(value=ast.Constant(value=not want))
            for n2 in (loop, tail):
                ast.copy_location(n2, g.node)
                ast.fix_missing_locations(n2)
            res = []
            for (s2, e2, oc) in I.block(st, dict(g.env), [loop, tail], g.frame):
                if oc is not None and oc[0] == 'ret':
                    res.append((s2, oc[1]))
                elif oc is not None and oc[0] == 'raise':
                    res.append((s2, oc[1]))
                else:
                    res.append((s2, not want))
            return res
        for (s0, seq) in I.force(st, args[0]):
            if isinstance(seq, (Opaque, SStr)) or seq is NONE:
                out.extend(I.decide(s0, (name, vkey(seq)), BOOL, frozenset([True])))
                continue
            elems = seq_elements(I, s0, seq)
            if any(isinstance(x, Star) for x in elems):
                out.extend(I.decide(s0, (name, vkey(seq)), BOOL, frozenset([True])))
                continue

            def rec(s, rest):
                if not rest:
                    return [(s, not want)]
                res = []
                head = rest[0]
                opt = None
                if type(head).__name__ == 'Opt':
                    opt, head = head, head.value
                for (s2, x) in I.force(s, head):
                    for (s3, b) in truth_value(I, s2, x, frame, node):
                        if b != want:
                            res.extend(rec(s3, rest[1:]))
                        elif opt is None:
                            res.append((s3, want))
                        else:
                            # the element decides the result only if the word is really there
                            from .loops import PSTATUS
                            for (s4, there) in I.decide(s3, opt.key_, PSTATUS, opt.allowed):
                                if there:
                                    res.append((s4, want))
                                else:
                                    res.extend(rec(s4, rest[1:]))
                return res
            out.extend(rec(s0, elems))
        return out
    # ---- list / dict methods
    if f.recv is not None and isinstance(f.recv, Obj) and (f.recv.oid in st.seqs or f.recv.oid in st.maps):
        from .containers import call_container_method
        return call_container_method(I, st, f.recv, name.split('.')[-1], args, kw, frame, node)
    # ---- strings
    if name.startswith('str.') and f.recv is not None:
        return str_method(I, st, f.recv, name[4:], args, kw, frame, node)
    if name.startswith('tuple.'):
        return [(st, _opaque_result(st, name, args, kw, frame, node, f.recv))]
    if name in LAZY and any(isinstance(a, Choice) for a in args):
        # pure conversions distribute over lazily decided values without forking the path
        from .exprs import _flat_alts, _conj
        combos = [({}, [])]
        for a in args:
            nxt = []
            for (c1, vs) in combos:
                for (c2, x) in _flat_alts(a):
                    c = _conj(c1, c2)
                    if c is None:
                        continue
                    if any(st.dom.get(k) is not None and not (st.dom[k] & al) for k, al in c.items()):
                        continue
                    nxt.append((c, vs + [x]))
            combos = nxt
        alts = []
        ok = bool(combos) and len(combos) <= 16
        if ok:
            for (c, vs) in combos:
                probe = st.clone()          # never probe on the live state: evaluation may restrict it
                ndom = len(probe.dom)
                r = _call_builtin(I, probe, f, name, vs, kw, frame, node, where)
                if len(r) != 1 or isinstance(r[0][1], Raised) or len(r[0][0].dom) != ndom:
                    ok = False
                    break
                alts.append((c, r[0][1]))
        if ok:
            from .loops import _merge_alts
            alts = _merge_alts(alts)
            if len(alts) == 1 and not alts[0][0]:
                return [(st, alts[0][1])]
            return [(st, Choice(alts))]
    if name not in FORCED and not name.startswith('math.') and not name.startswith('copy.'):
        return _call_builtin(I, st, f, name, list(args), kw, frame, node, where)
    # ---- forced arguments for the builtins below
    fargs_list = [(st, [])]
    for a in args:
        nxt = []
        for (s1, vs) in fargs_list:
            for (s2, v) in I.force(s1, a):
                nxt.append((s2, vs + [v]))
        fargs_list = nxt
    out = []
    for (s1, fa) in fargs_list:
        out.extend(_call_builtin(I, s1, f, name, fa, kw, frame, node, where))
    return out


def _call_builtin(I, st, f, name, args, kw, frame, node, where):
    if name == 'len':
        v = args[0]
        if isinstance(v, TupleV):
            elems = v.elems
        elif isinstance(v, Obj) and v.oid in st.seqs:
            elems = st.seqs[v.oid]
        elif isinstance(v, Obj) and v.oid in st.maps:
            elems = [Star(it[1]) if it[0] in ('star', 'opt') else it for it in st.maps[v.oid]]
        elif isinstance(v, Str):
            return [(st, Num.const(len(v.s)))]
        elif v is NONE:
            return [(st, Raised('TypeError', 'len(None)', where))]
        elif isinstance(v, Cat):
            # length of a concatenation: literal parts count, every spliced value contributes its own length symbol
            p = Num.const(0).p
            for part in v.parts:
                if isinstance(part, str):
                    p = p + Num.const(len(part)).p
                elif part[2] in ('', None) and isinstance(part[1], (SStr, Str)):
                    if isinstance(part[1], Str):
                        p = p + Num.const(len(part[1].s)).p
                    else:
                        p = p + I.symbol('len(%s)' % _k(part[1]), POS if part[1].nonempty else NONNEG, kind='len').p
                else:
                    p = p + I.symbol('len(%s)' % repr(vkey(part[1])), NONNEG, kind='len').p
            return [(st, Num(p, True))]
        else:
            n = I.symbol('len(%s)' % _k(v), NONNEG, kind='len')
            return [(st, Num(n.p, True))]
        if any(type(x).__name__ == 'Opt' or (isinstance(x, tuple) and x and x[0] == 'opt') for x in elems):
            raise Unsupported('len() of a collection with optional elements (words of a command) in %s' % frame.qual())
        fixed = sum(1 for x in elems if not isinstance(x, Star))
        stars = [x for x in elems if isinstance(x, Star)]
        p = Num.const(fixed).p
        for sx in stars:
            p = p + I.symbol('len(%s)' % sx.tag, POS if sx.nonempty else NONNEG, kind='len').p
        return [(st, Num(p, True))]
    if name == 'range':
        if all(isinstance(a, Num) and a.is_const() and a.p.const_value().denominator == 1 for a in args):
            r = range(*[int(a.p.const_value()) for a in args])
            if len(r) > 64:
                raise Unsupported('long constant range')
            return [(st, IterV([Num.const(i) for i in r], 'range'))]
        st.ev('range', tuple(args), frame.qual())
        return [(st, IterV([Star('range(%s)' % ','.join(_k(a) for a in args), '@num')], 'range'))]
    if name == 'isinstance':
        return isinstance_value(I, st, args[0], args[1], frame)
    if name == 'setattr' and len(args) == 3:
        o, nm, val = args
        if not isinstance(nm, Str) or not isinstance(o, Obj):
            raise Unsupported('setattr with a non-constant name / unknown object in %s' % frame.qual())
        tgt = ast.Attribute(value=ast.Name(id='@setattr_obj', ctx=ast.Load()), attr=nm.s, ctx=ast.Store())
        ast.copy_location(tgt, node)
        ast.fix_missing_locations(tgt)
        out = []
        for (s2, e2, oc) in I.assign(st, {'@setattr_obj': o}, tgt, val, frame):
            out.append((s2, oc[1] if oc is not None and oc[0] == 'raise' else NONE))
        return out
    if name == 'id' and len(args) == 1:
        return [(st, Opaque('id(%s)' % _k(args[0])))]
    if name == 'getattr':
        from .exprs import getattr_value
        o, nm = args[0], args[1]
        if not isinstance(nm, Str):
            raise Unsupported('getattr with a non-constant name in %s' % frame.qual())
        if isinstance(o, Obj):
            cls = st.cls[o.oid]
            known = (I.m.lookup(cls, nm.s)[1] is not None or I.m.lookup(cls, nm.s, 'props')[1] is not None
                     or (o.oid, nm.s) in st.heap or any((c, nm.s) in I.fieldspec for c in I.m.mro(cls)))
            if not known:
                if len(args) > 2:
                    return [(st, args[2])]
                return [(st, Raised('AttributeError', nm.s, where))]
        return getattr_value(I, st, o, nm.s, frame, node)
    if name == 'str':
        if not args:
            return [(st, Str(''))]
        v = args[0]
        if isinstance(v, (Str, SStr, Cat)):
            return [(st, v)]
        if isinstance(v, Num) and v.is_const() and v.isint:
            return [(st, Str(str(int(v.p.const_value()))))]
        if v is NONE:
            return [(st, Str('None'))]
        return [(st, Cat([('fmt', v, '', 'str')]))]
    if name == 'format' and args:
        spec = args[1].s if len(args) > 1 and isinstance(args[1], Str) else ''
        return [(st, Cat([('fmt', args[0], spec, 'format')]))]
    if name in ('Decimal', 'decimal.Decimal') and args:
        return [(st, Opaque('Decimal(%s)' % _k(args[0]), deps_of(args[0])))]
    if name == 'repr':
        return [(st, Cat([('fmt', args[0], '', 'repr')]))]
    if name == 'float':
        v = args[0] if args else Num.const(0.0)
        if isinstance(v, Num):
            return [(st, Num(v.p, False))]
        if isinstance(v, Str):
            try:
                return [(st, Num.const(float(v.s)))]
            except ValueError:
                return [(st, Raised('ValueError', 'float(%r)' % v.s, where))]
        if v is NONE:
            return [(st, Raised('TypeError', 'float(None)', where))]
        st.ev('convert', 'float', v, frame.qual(), node.lineno)
        return [(st, I.symbol('float(%s)' % _k(v), SIGNS, kind='convert', src=v))]
    if name == 'int':
        v = args[0] if args else Num.const(0)
        if isinstance(v, Num):
            if v.isint:
                return [(st, v)]
            if v.is_const():
                return [(st, Num.const(int(v.p.const_value())))]
            st.ev('convert', 'int-of-float', v, frame.qual(), node.lineno)
            r = I.app('int', [v], I.infer_signs(st, v.p) | frozenset([0]))
            return [(st, Num(r.p, True))]
        if isinstance(v, Str):
            try:
                return [(st, Num.const(int(v.s)))]
            except ValueError:
                return [(st, Raised('ValueError', 'int(%r)' % v.s, where))]
        if v is NONE:
            return [(st, Raised('TypeError', 'int(None)', where))]
        st.ev('convert', 'int', v, frame.qual(), node.lineno)
        r = I.symbol('int(%s)' % _k(v), SIGNS, kind='convert', src=v)
        return [(st, Num(r.p, True))]
    if name == 'bool':
        from .exprs import truth_value
        return truth_value(I, st, args[0], frame, node)
    if name == 'abs':
        v = args[0]
        if isinstance(v, Num):
            sg = I.infer_signs(st, v.p)
            if sg <= NONNEG:
                return [(st, v)]
            if sg <= frozenset([-1, 0]):
                return [(st, Num(-v.p, v.isint))]
            return [(st, I.app('abs', [v], NONNEG))]
        if v is NONE:
            return [(st, Raised('TypeError', 'abs(None)', where))]
    if name in ('max', 'min') and len(args) >= 2 and all(isinstance(a, Num) for a in args):
        sets = [I.infer_signs(st, a.p) for a in args]
        if name == 'min':
            sets = [frozenset(-x for x in s2) for s2 in sets]
        if any(s2 <= POS for s2 in sets):
            sg = POS
        elif any(s2 <= NONNEG for s2 in sets):
            sg = NONNEG
        elif all(s2 <= frozenset([-1]) for s2 in sets):
            sg = frozenset([-1])
        else:
            sg = SIGNS
        if name == 'min':
            sg = frozenset(-x for x in sg)
        r = I.app(name, args, sg)
        return [(st, Num(r.p, all(a.isint for a in args)))]
    if name.startswith('math.'):
        fn = name[5:]
        nums = [a for a in args if isinstance(a, Num)]
        if len(nums) != len(args):
            if any(a is NONE for a in args):
                return [(st, Raised('TypeError', '%s on None' % name, where))]
            return [(st, _opaque_result(st, name, args, kw, frame, node))]
        if fn == 'hypot':
            return [(st, I.app('hypot', args, NONNEG))]
        if fn == 'sqrt':
            out = []
            for (s2, ok) in I.decide_sign(st, args[0].p, NONNEG):
                if ok:
                    out.append((s2, I.app('sqrt', args, NONNEG)))
                else:
                    s2.ev('partial', 'sqrt-domain', frame.qual(), _norm(node), node.lineno)
                    out.append((s2, Raised('ValueError', 'math domain error: %s' % _norm(node), where)))
            return out
        if fn in ('ceil', 'floor'):
            st.ev('convert', fn, args[0], frame.qual(), node.lineno)
            sg = I.infer_signs(st, args[0].p)
            r = I.app(fn, args, sg | frozenset([0]) if fn == 'floor' else sg)
            return [(st, Num(r.p, True))]
        if fn in ('atan2', 'cos', 'sin', 'tan', 'atan', 'acos', 'asin', 'fabs', 'degrees', 'radians', 'copysign'):
            return [(st, I.app(fn, args, NONNEG if fn == 'fabs' else SIGNS))]
        if fn == 'isclose' and len(args) >= 2 and isinstance(args[0], Num) and isinstance(args[1], Num):
            # "approximately equal": certainly true for equal values, otherwise it may hold for values that differ - an answer the
            # sign facts of the path cannot justify
            d = args[0].p - args[1].p
            if I.infer_signs(st, d) == frozenset([0]):
                return [(st, True)]
            return I.decide(st, ('isclose', d.canon()[0].key()), BOOL, frozenset([True]))
        if fn == 'isnan' or fn == 'isinf' or fn == 'isfinite':
            return I.decide(st, (fn, vkey(args[0])), BOOL, frozenset([True]))
        raise Unsupported('math.%s' % fn)
    if name == 'time.time':
        return [(st, I.symbol('time.time()', POS, kind='clock'))]
    if name in ('copy.deepcopy', 'copy.copy'):
        v0 = args[0]
        if isinstance(v0, Obj) and st.cls.get(v0.oid) in I.m.classes:
            hook = '__deepcopy__' if name == 'copy.deepcopy' else '__copy__'
            c0, fn0 = I.m.lookup(st.cls[v0.oid], hook)
            if fn0 is not None:
                # the class customises the copy protocol: what the copy looks like is whatever that method builds
                st.ev('custom-copy', hook, v0.oid, frame.qual())
                hargs = []
                if hook == '__deepcopy__':
                    memo = args[1] if len(args) > 1 else None
                    if memo is None:
                        moid = st.new_oid('dict', 'memo')
                        st.maps[moid] = ()
                        st.flags.add(('fresh', moid))
                        memo = Obj(moid)
                    hargs = [memo]
                return I.run_fn(st, c0, I.m.classes[c0].module, fn0, v0, hargs, {}, frame.depth + 1, node)
            for other in ('__reduce__', '__reduce_ex__', '__getstate__', '__setstate__', '__getnewargs__'):
                if I.m.lookup(st.cls[v0.oid], other)[1] is not None:
                    raise Unsupported('%s customises copying through %s (not modelled)' % (st.cls[v0.oid], other))
        return [(st, copy_object(I, st, args[0], name == 'copy.deepcopy', frame, node))]
    if name in ('OrderedDict', 'collections.OrderedDict') or name.endswith('.OrderedDict') or (name == 'dict' and args and not kw and not (
            isinstance(args[0], Obj) and args[0].oid in st.maps)):
        oid = st.new_oid('dict', 'odict@%s' % frame.fn.name)
        st.maps[oid] = ()
        st.flags.add(('fresh', oid))
        if args:
            # built from (key, value) pairs: inserted one after the other, a repeated key keeps its place and takes the last value
            a = args[0]
            if isinstance(a, Obj) and a.oid in st.maps:
                st.maps[oid] = tuple(st.maps[a.oid])
                return [(st, Obj(oid))]
            from .exprs import seq_elements
            from .containers import map_set
            try:
                elems = seq_elements(I, st, a)
            except Unsupported:
                elems = None
            if elems is not None and any(type(x).__name__ == 'Opt' for x in elems) and not any(isinstance(x, Star) for x in elems):
                # optional pairs with literal keys (the words of a command): optional entries; a repeated key is decided
                # on the spot (present: it replaces the earlier entry in place, absent: nothing happens)
                from .loops import PSTATUS
                cur, ok = [(st, [])], True
                for x in elems:
                    isopt = type(x).__name__ == 'Opt'
                    pair = x.value if isopt else x
                    if not (isinstance(pair, TupleV) and len(pair.elems) == 2 and isinstance(pair.elems[0], Str)):
                        ok = False
                        break
                    k = pair.elems[0]
                    nxt = []
                    for (s1, items) in cur:
                        idx = [n for n, it in enumerate(items) if it[1].s == k.s]
                        if not idx:
                            nxt.append((s1, items + [('opt', k, pair.elems[1], x.key_, x.allowed) if isopt else ('kv', k, pair.elems[1])]))
                            continue
                        branches = I.decide(s1, x.key_, PSTATUS, x.allowed) if isopt else [(s1, True)]
                        for (s2, there) in branches:
                            it2 = list(items)
                            if there:
                                it2[idx[0]] = ('kv', k, pair.elems[1])
                            nxt.append((s2, it2))
                    cur = nxt
                if ok:
                    out = []
                    for n, (s1, items) in enumerate(cur):
                        s1.maps[oid] = tuple(items)
                        s1.flags.add(('fresh', oid))
                        out.append((s1, Obj(oid)))
                    return out
            if elems is None or any(isinstance(x, Star) or type(x).__name__ == 'Opt' for x in elems):
                st.maps[oid] = (('star', '%s(%s)' % (name.split('.')[-1], _k(a))),)
                return [(st, Obj(oid))]
            cur = [st]
            for el in elems:
                nxt = []
                for s1 in cur:
                    for (s2, pair) in I.force(s1, el):
                        if not (isinstance(pair, TupleV) and len(pair.elems) == 2):
                            raise Unsupported('dict built from something that is not a pair in %s' % frame.qual())
                        nxt.extend(map_set(I, s2, Obj(oid), pair.elems[0], pair.elems[1], frame))
                cur = nxt
            return [(s1, Obj(oid)) for s1 in cur]
        return [(st, Obj(oid))]
    if name == 'dict':
        oid = st.new_oid('dict', 'dict@%s' % frame.fn.name)
        items = []
        if args:
            a = args[0]
            if isinstance(a, Obj) and a.oid in st.maps:
                items = list(st.maps[a.oid])
            else:
                items = [('star', 'dict(%s)' % _k(a))]
        for k, v in kw.items():
            items.append(('kv', Str(k), v))
        st.maps[oid] = tuple(items)
        return [(st, Obj(oid))]
    if name in ('dict.fromkeys', 'OrderedDict.fromkeys') and args:
        from .exprs import seq_elements
        elems = seq_elements(I, st, args[0])
        if not any(isinstance(x, Star) for x in elems):
            oid = st.new_oid('dict', 'fromkeys@%s' % frame.fn.name)
            val = args[1] if len(args) > 1 else NONE
            st.maps[oid] = tuple(('kv', k, val) for k in elems)
            st.flags.add(('fresh', oid))
            return [(st, Obj(oid))]
    if name in ('list', 'tuple'):
        from .exprs import seq_elements
        elems = seq_elements(I, st, args[0]) if args else []
        if name == 'tuple':
            return [(st, TupleV(elems))]
        oid = st.new_oid('list', 'list()@%s' % frame.fn.name)
        st.seqs[oid] = tuple(elems)
        return [(st, Obj(oid))]
    if name in ('uuid.uuid4',):
        return [(st, Opaque('uuid4()'))]
    if name == 'type':
        v = args[0]
        if isinstance(v, Obj) and v.oid in st.cls:
            return [(st, ClassRef(st.cls[v.oid]))]
    if name == 'set' and not args and not kw:
        # an empty set that the code fills with add(): kept as an abstract sequence (membership, truthiness and iteration
        # are what the package uses; a repeated element does not change any of them)
        oid = st.new_oid('list', 'set@%s' % frame.fn.name)
        st.seqs[oid] = ()
        return [(st, Obj(oid))]
    if name in ('enumerate', 'zip', 'reversed', 'set', 'frozenset') and args:
        from .exprs import seq_elements
        try:
            seqs = [seq_elements(I, st, a) for a in args[:1 if name in ('enumerate', 'reversed', 'set', 'frozenset') else None]]
        except Unsupported:
            seqs = None
        if seqs is not None and name == 'enumerate' and len(seqs[0]) == 1 and isinstance(seqs[0][0], Star) and seqs[0][0].cls != '@num':
            base = seqs[0][0]
            return [(st, IterV([Star(base.tag, '@enum:%s' % (base.cls or ''), base.nonempty)], 'enumerate'))]
        if seqs is not None and not any(isinstance(x, Star) or type(x).__name__ == 'Opt' for sq in seqs for x in sq):
            if name == 'enumerate':
                start = 0
                if len(args) > 1 and isinstance(args[1], Num) and args[1].is_const():
                    start = int(args[1].p.const_value())
                elif 'start' in kw and isinstance(kw['start'], Num) and kw['start'].is_const():
                    start = int(kw['start'].p.const_value())
                return [(st, IterV([TupleV([Num.const(start + i), x]) for i, x in enumerate(seqs[0])], 'enumerate'))]
            if name == 'zip':
                n = min(len(sq) for sq in seqs) if seqs else 0
                return [(st, IterV([TupleV([sq[i] for sq in seqs]) for i in range(n)], 'zip'))]
            if name == 'reversed':
                return [(st, IterV(list(reversed(seqs[0])), 'reversed'))]
            return [(st, TupleV(seqs[0]))]      # set of known elements: used for membership tests
    if name == 'sorted' or name == 'reversed' or name == 'filter' or name == 'map' or name == 'set' or \
            name == 'frozenset' or name == 'enumerate' or name == 'zip':
        from .exprs import seq_elements
        tag = '%s(%s)' % (name, ','.join(_k(a) for a in args))
        st.ev('ext', name, tuple(args), tuple(sorted(kw.items())), frame.qual(), node.lineno)
        if name == 'sorted':
            oid = st.new_oid('list', 'sorted@%s' % frame.fn.name)
            st.seqs[oid] = (Star(tag),)
            return [(st, Obj(oid))]
        return [(st, IterV([Star(tag)], name))]
    if name.startswith('const:') and name.endswith('.match'):
        # compiled module-level regex: the match object (or None) is identified by regex and arguments
        rname = name[6:-6].split('.')[-1]
        tag = 'M:%s(%s)' % (rname, ','.join(_k(a) for a in args))
        st.ev('regex-match', rname, tuple(args), frame.qual())
        return [(st, I.maybe(('nomatch', tag), Opaque(tag, set().union(*[deps_of(a) for a in args]) if args else ())))]
    if f.recv is None and '.' in name and name.split('.')[0].startswith('M:') or name.startswith('M:'):
        base, _, meth = name.rpartition('.')
        if meth == 'group' and len(args) > 1:
            # match.group(a, b, ...) is the tuple of the single-group results
            cur = [(st, [])]
            for a in args:
                nxt = []
                for (s1, acc) in cur:
                    for (s2, v) in _call_builtin(I, s1, f, name, [a], {}, frame, node, where):
                        nxt.append((s2, acc + [v]))
                cur = nxt
            return [(s1, TupleV(acc)) for (s1, acc) in cur]
        if meth == 'group' and args:
            gtag = '%s.g%s' % (base, _k(args[0]))
            guards = regex_guards(I, base[2:].split('(')[0])
            from .containers import const_index as _ci
            val = SStr(gtag, {base}, nonempty=bool(guards and guards[2].get(_ci(args[0]))))
            from .containers import const_index
            gi = const_index(args[0])
            if guards is not None and gi is not None and gi in guards[0]:
                g = guards[0][gi]
                if g == ():
                    return [(st, val)]          # the group takes part in every match
                return [(st, I.maybe(('nogroup', base, g), val))]
            return [(st, I.maybe(('nogroup', gtag), val))]
        if meth in ('start', 'end'):
            idx = _k(args[0]) if args else ''
            v = I.symbol('%s.%s(%s)' % (base, meth, idx), NONNEG, kind='matchpos', base=base, which=meth, group=idx)
            return [(st, Num(v.p, True))]
    if name.startswith('const:') and name.endswith('.sub') and len(args) >= 2:
        # compiled module-level regex: substitution result is a string derived from the subject
        src = args[1]
        st.ev('ext', name, tuple(args), (), frame.qual(), node.lineno)
        return [(st, SStr('resub(%s,%s,%s)' % (name[6:-4], _k(args[0]), _k(src)), deps_of(src) | {'resub'}))]
    # ---- anything else: recorded, opaque result
    return [(st, _opaque_result(st, name, args, kw, frame, node, f.recv))]


def isinstance_value(I, st, v, c, frame):
    if isinstance(c, TupleV):
        def rec(s, rest):
            if not rest:
                return [(s, False)]
            res = []
            for (s2, b) in isinstance_value(I, s, v, rest[0], frame):
                if b:
                    res.append((s2, True))
                else:
                    res.extend(rec(s2, rest[1:]))
            return res
        return rec(st, list(c.elems))
    cname = c.name if isinstance(c, (ClassRef, ExtFn, ModuleRef)) else None
    if cname is None:
        raise Unsupported('isinstance against %r' % (c,))
    short = cname.split('.')[-1]
    if isinstance(v, Obj):
        if v.oid in st.seqs:
            return [(st, short in ('list', 'Sequence', 'Iterable', 'object'))]
        if v.oid in st.maps:
            return [(st, short in ('dict', 'Mapping', 'MutableMapping', 'OrderedDict', 'Iterable', 'object'))]
        cls = st.cls[v.oid]
        if cls in I.m.classes:
            if isinstance(c, ClassRef):
                return [(st, I.m.is_subclass(cls, c.name))]
            return [(st, short == 'object')]
        if cls != 'Region' and isinstance(c, ClassRef):
            return [(st, False)]      # an object of a class outside the package is no instance of a package class
        return I.decide(st, ('isinstance', v.oid, short), BOOL, frozenset([True]))
    if isinstance(v, TupleV):
        return [(st, short in ('tuple', 'Sequence', 'Iterable', 'object'))]
    if isinstance(v, (Str, SStr, Cat)):
        return [(st, short in ('str', 'basestring', 'unicode', 'object'))]
    if isinstance(v, Num):
        return [(st, short in (('int', 'float', 'Number', 'object') if v.isint else ('float', 'Number', 'object')))]
    if v is NONE or v is True or v is False:
        return [(st, (short in ('bool', 'int', 'object')) if v is not NONE else short == 'object')]
    if isinstance(v, Opaque):
        # mutually exclusive kinds for one opaque value
        return I.decide(st, ('isinstance', v.key(), short), BOOL, frozenset([True]))
    return [(st, False)]


def copy_object(I, st, v, deep, frame, node):
    if not isinstance(v, Obj):
        return v
    src = v.oid
    cls = st.cls[src]
    dst = st.new_oid(cls, ('deepcopy(%s)' if deep else 'copy(%s)') % src)
    st.ev('copy', 'deep' if deep else 'shallow', src, dst, frame.qual(), node.lineno)
    st.flags.add(('fresh', dst))
    if src in st.seqs:
        st.seqs[dst] = st.seqs[src]
    if src in st.maps:
        st.maps[dst] = st.maps[src]
    if not deep:
        # a shallow copy shares every field value with the source
        specs = [(c, a) for (c, a) in I.fieldspec if c in I.m.mro(cls)]
        for (c, a) in specs:
            if (src, a) not in st.heap:
                st.heap[(src, a)] = I.materialise(st, v, cls, a)
        for (oid, a), val in list(st.heap.items()):
            if oid == src:
                st.heap[(dst, a)] = val
    return Obj(dst)


# ---------------------------------------------------------------------- string methods
def str_method(I, st, recv, meth, args, kw, frame, node):
    where = (frame.qual(), node.lineno)
    if meth == 'format':
        return _str_method(I, st, recv, meth, list(args), kw, frame, node, where)
    cur = [(st, [])]
    for a in args:
        nxt = []
        for (s1, vs) in cur:
            for (s2, v) in I.force(s1, a):
                nxt.append((s2, vs + [v]))
        cur = nxt
    out = []
    for (s1, fa) in cur:
        out.extend(_str_method(I, s1, recv, meth, fa, kw, frame, node, where))
    return out


def note_text_conversion(I, st, values, frame):
    """an object of the package turned into text right here (format / % / f-string / str()) runs its __repr__ / __str__ -
    code that may raise; logging calls with lazy arguments do not come here"""
    for v in values:
        if isinstance(v, Obj) and st.cls.get(v.oid) in I.m.classes:
            cls = st.cls[v.oid]
            for hook in ('__format__', '__str__', '__repr__'):
                c, fn = I.m.lookup(cls, hook)
                if fn is not None:
                    # run the hook on a scratch copy of the state: only a conversion that can raise matters
                    try:
                        res = I.run_fn(st.clone(), c, I.m.classes[c].module, fn, v, [], {}, frame.depth + 1)
                    except (Unsupported, AnalysisError):
                        res = [(st, Raised('?', 'not analysable', None))]
                    bad = [r for (_s, r) in res if isinstance(r, Raised)]
                    if bad:
                        st.ev('obj-to-text', cls, '%s.%s' % (c, hook), frame.qual(), bad[0].exc)
                    break


def _str_method(I, st, recv, meth, args, kw, frame, node, where):
    if meth == 'format':
        note_text_conversion(I, st, list(args) + list(kw.values()), frame)
        if isinstance(recv, Str):
            return [(st, format_string(recv.s, args, kw))]
        return [(st, SStr('format(%s)' % _k(recv), deps_of(recv)))]
    conc = isinstance(recv, Str) and all(isinstance(a, Str) or (isinstance(a, Num) and a.is_const()) or a is NONE
                                         for a in args)
    if conc:
        pa = [a.s if isinstance(a, Str) else (None if a is NONE else int(a.p.const_value())) for a in args]
        try:
            r = getattr(recv.s, meth)(*pa)
        except Exception as ex:  # noqa
            return [(st, Raised(type(ex).__name__, str(ex), where))]
        if isinstance(r, bool):
            return [(st, r)]
        if isinstance(r, str):
            return [(st, Str(r))]
        if isinstance(r, int):
            return [(st, Num.const(r))]
        if isinstance(r, (list, tuple)) and all(isinstance(x, str) for x in r):
            if isinstance(r, tuple):
                return [(st, TupleV([Str(x) for x in r]))]
            oid = st.new_oid('list', 'split')
            st.seqs[oid] = tuple(Str(x) for x in r)
            return [(st, Obj(oid))]
        if isinstance(r, bytes):
            return [(st, Opaque('bytes(%r)' % r))]
    if meth == 'join':
        from .exprs import seq_elements
        elems = seq_elements(I, st, args[0])
        if isinstance(recv, Str) and not any(isinstance(x, Star) for x in elems):
            parts = []
            for i, x in enumerate(elems):
                if i:
                    parts.append(recv.s)
                if isinstance(x, Str):
                    parts.append(x.s)
                elif isinstance(x, Cat):
                    parts.extend(x.parts)
                else:
                    parts.append(('fmt', x, '', 'raw'))
            r = Cat(parts)
            if not r.parts:
                return [(st, Str(''))]
            if len(r.parts) == 1 and isinstance(r.parts[0], str):
                return [(st, Str(r.parts[0]))]
            return [(st, r)]
        return [(st, Cat([('fmt', TupleV([recv] + list(elems)), '', 'join')]))]
    if meth in ('upper', 'lower', 'strip', 'lstrip', 'rstrip'):
        tag = '%s(%s)' % (meth, _k(recv))
        return [(st, SStr(tag, deps_of(recv), nonempty=meth in ('upper', 'lower') and getattr(recv, 'nonempty', False)))]
    if meth in ('startswith', 'endswith', 'isdigit', 'isalpha', 'isspace'):
        return I.decide(st, (meth, vkey(recv), tuple(vkey(a) for a in args)), BOOL, frozenset([True]))
    if meth == 'split':
        oid = st.new_oid('list', 'split')
        st.seqs[oid] = (Star('split(%s)' % _k(recv), None, False),)
        return [(st, Obj(oid))]
    if meth == 'encode':
        return [(st, Opaque('encode(%s)' % _k(recv), deps_of(recv)))]
    return [(st, SStr('%s(%s)' % (meth, _k(recv)), deps_of(recv)))]


def format_string(fmt, args, kw):
    import string
    parts = []
    auto = 0
    for lit, field, spec, conv in string.Formatter().parse(fmt):
        if lit:
            parts.append(lit)
        if field is None:
            continue
        base = field.split('.')[0].split('[')[0]
        if base == '':
            v = args[auto] if auto < len(args) else Opaque('missing-format-arg')
            auto += 1
        elif base.isdigit():
            v = args[int(base)] if int(base) < len(args) else Opaque('missing-format-arg')
        else:
            v = kw.get(base, Opaque('missing-format-arg:%s' % base))
        if field != base:
            v = Opaque('%s of %s' % (field, _k(v)), deps_of(v))
        if isinstance(v, Cat) and not spec and conv in (None, '', 's'):
            parts.extend(v.parts)       # formatting a string inserts it unchanged
            continue
        if isinstance(v, Str) and not spec and conv in (None, '', 's'):
            parts.append(v.s)
            continue
        parts.append(('fmt', v, spec or '', conv or ''))
    r = Cat(parts)
    if not r.parts:
        return Str('')
    if len(r.parts) == 1 and isinstance(r.parts[0], str):
        return Str(r.parts[0])
    return r


def regex_guards(I, rname):
    """capture-group participation structure of a module-level compiled regex (from its folded pattern)"""
    cache = I.__dict__.setdefault('_regex_guards', {})
    if rname in cache:
        return cache[rname]
    res = None
    for (mod, name), node in I.m.consts.items():
        if name == rname and isinstance(node, ast.Call) and node.args:
            try:
                pat = I.m.fold(mod, node.args[0])
            except (KeyError, TypeError):
                continue
            from . import rx
            res = rx.group_guards(pat) + (rx.group_nonempty(pat),)
    cache[rname] = res
    return res
