"""Facts read off one abstract path of a G-code handler."""
from .absint import Raised
from .values import (NONE, Num, Str, SStr, Cat, Obj, TupleV, Star, Choice, Opaque, vkey, deps_of)

S_OID = 'H.state'
CMDKEY = ('sstr', 'CMD')


def live_alts(st, v, assume=None):
    """concrete alternatives of a (possibly nested) Choice that are compatible with the path decisions, with the
    extra assumptions {key: allowed values} and with the guards of the enclosing alternatives"""
    if assume:
        # an assumption the path has already decided the other way leaves nothing alive
        for k, allowed in assume.items():
            cur = st.dom.get(k)
            if cur is not None and not (cur & allowed):
                return []
    if not isinstance(v, Choice):
        return [v]
    out = []
    for cons, x in v.alts:
        ok = True
        acc = dict(assume) if assume else {}
        for k, allowed in cons.items():
            cur = st.dom.get(k)
            if cur is not None and not (cur & allowed):
                ok = False
                break
            if k in acc:
                both = acc[k] & allowed
                if not both:
                    ok = False
                    break
                acc[k] = both
            else:
                acc[k] = allowed
        if ok:
            out.extend(live_alts(st, x, acc))
    return out


class Facts(object):
    def __init__(self, p, I):
        self.p = p
        self.I = I
        st = p.st
        self.st = st
        self.pre_excluding = p.fld(S_OID, 'excluding')
        self.pre_enabled = p.fld(S_OID, '_exclusionEnabled')
        self.any_excluded = False
        self.region_tested = False
        for k, v in st.dom.items():
            if k[0] == 'truthy' and 'containsPoint' in repr(k[1]):
                self.region_tested = True
                if v == frozenset([True]):
                    self.any_excluded = True
            if k[0] == 'more' and k[1] == 'regions':
                self.region_tested = True
        self.lastretr_none = p.dec(('null', S_OID, 'lastRetraction'))
        self.owed = p.fld(S_OID + '.lastRetraction', 'recoverExcluded')
        r = p.ret
        self.raised = isinstance(r, Raised)
        self.kind = 'other'
        self.elems = []
        if self.raised:
            self.kind = 'raise'
        elif r is NONE:
            self.kind = 'none'
        elif isinstance(r, TupleV) and len(r.elems) == 1 and r.elems[0] is NONE:
            self.kind = 'ignore'
        elif isinstance(r, Obj) and r.oid in st.seqs:
            self.kind = 'list'
            self.elems = list(st.seqs[r.oid])
        self.calls = set((e[1], e[2]) for e in st.trace if e[0] == 'call')

    # ---- parameters of the incoming command
    def pstatus(self, letter):
        return self.st.dom.get(('param', CMDKEY, letter), frozenset(['A', 'F', 'V']))

    def valued(self, letter):
        return self.pstatus(letter) == frozenset(['V'])

    def maybe_valued(self, letter):
        return 'V' in self.pstatus(letter)

    # ---- state after the path
    def final(self, oid, attr, assume=None):
        v = self.st.heap.get((oid, attr))
        if v is None:
            return []
        return live_alts(self.st, v, assume)

    def post_excluding(self):
        alts = self.final(S_OID, 'excluding')
        if len(alts) == 1 and alts[0] in (True, False):
            return alts[0]
        return None

    def wrote(self, cls, attr):
        return [e for e in self.st.trace if e[0] == 'write' and e[1] == cls and e[2] == attr]

    # ---- output classification
    def elem_kinds(self):
        """list of sets of kinds, one per output element"""
        out = []
        for e in self.elems:
            kinds = set()
            for a in live_alts(self.st, e):
                kinds.add(classify(a))
            out.append(kinds)
        return out

    def describe(self):
        def d(e):
            alts = live_alts(self.st, e)
            return '|'.join(sorted(set(show(a) for a in alts)))
        if self.kind == 'list':
            return '[' + ', '.join(d(e) for e in self.elems) + ']'
        if self.kind == 'raise':
            return 'raise %s(%s)' % (self.p.ret.exc, self.p.ret.info)
        return {'none': 'None (pass through)', 'ignore': 'IGNORE'}.get(self.kind, repr(self.p.ret))

    def decisions(self):
        out = []
        for k, v in self.st.declog:
            if k[0] == 'sgn':
                continue
            out.append('%s=%s' % (short_key(k), '/'.join(sorted(map(str, v)))))
        return out[:40]


def short_key(k):
    r = repr(k)
    return r if len(r) < 90 else r[:87] + '...'


def classify(a):
    if isinstance(a, SStr):
        if a.tag == 'CMD':
            return 'CMD'
        if a.tag.startswith('built('):
            return 'built'
        return 'sstr:' + a.tag
    if isinstance(a, Cat):
        return 'tmpl:' + a.skeleton()
    if isinstance(a, Str):
        return 'lit:' + a.s
    if isinstance(a, Star):
        if a.tag.endswith('over pending)') or a.tag.startswith('each(pending'):
            return 'star:each(pending)'     # the drained pending commands, however the drain loop is written
        return 'star:' + a.tag
    if a is NONE:
        return 'None'
    if isinstance(a, Opaque) and (a.tag.startswith('pending[') or a.tag.startswith('each(pending)')):
        return 'star:pending'       # one generic member of the pending-commands run
    if isinstance(a, Opaque) and (a.tag.startswith('exitScript[') or a.tag.startswith('enterScript[')):
        return 'star:' + a.tag.split('[')[0]
    return 'other:' + repr(a)[:60]


def show(a):
    return classify(a).split(':', 1)[-1] if not isinstance(a, SStr) else classify(a)


def element_nonempty(a):
    if isinstance(a, SStr):
        return a.nonempty
    if isinstance(a, Cat):
        return any(isinstance(p, str) and p for p in a.parts)
    if isinstance(a, Str):
        return bool(a.s)
    if isinstance(a, Star):
        return True     # members of script / pending runs are non-empty strings (C06.R9)
    if isinstance(a, Opaque) and classify(a).startswith('star:'):
        return True
    return False


def template_letters(skel):
    """parameter letters of a synthesised command skeleton such as 'G0 F{} X{} Y{}'"""
    import re
    return re.findall(r'(?<![A-Za-z])([A-Za-z])\{', skel)


def consistent(st, assume):
    """False when the path has already decided one of the assumed keys the other way"""
    for k, allowed in (assume or {}).items():
        d = st.dom.get(k)
        if d is not None and not (d & allowed):
            return False
    return True


def arc_executed(f):
    """the path decided that a centre offset of the arc (I / J word, or the offsets computed from R) is not zero: the
    firmware executes such an arc, so the tracked position has to follow it"""
    for k, allowed in f.st.dom.items():
        if k[0] != 'sgn' or 0 in allowed:
            continue
        try:
            terms = k[1]
            if len(terms) != 1 or len(terms[0][0]) != 1:
                continue
            name = terms[0][0][0][0]
        except (TypeError, IndexError):
            continue
        if name in ('p:I', 'p:J') or ('computeArcCenterOffsets' in name and '.ret[' in name):
            return True
    return False


def g0_wiring(f, gcode):
    """[(function, construct, message)] when a G0/G1 handler hands processLinearMoves something else than the words of the
    command: the value of the word where the command carries one, None where it does not - in every positioning mode (the
    callee tells a move from a filament-only command by `is not None`)"""
    out = []
    if gcode not in ('G0', 'G1'):
        return out
    st = f.st
    for e in st.trace:
        if e[0] != 'args' or e[2] != 'processLinearMoves':
            continue
        a = dict(e[3])
        slots = [('E', a.get('extruderPosition')), ('F', a.get('feedRate')), ('Z', a.get('finalZ'))]
        xy = a.get('xyPairs')
        if isinstance(xy, Obj) and xy.oid in st.seqs and len(st.seqs[xy.oid]) == 2:
            slots += [('X', st.seqs[xy.oid][0]), ('Y', st.seqs[xy.oid][1])]
        elif isinstance(xy, TupleV) and len(xy.elems) == 2:
            slots += [('X', xy.elems[0]), ('Y', xy.elems[1])]
        else:
            out.append(('GcodeHandlers._handle_G0', '%s: point list %r' % (gcode, xy), 'a G0/G1 has exactly one destination (x, y)'))
        for letter, v in slots:
            key = ('param', CMDKEY, letter)
            if f.pstatus(letter) & frozenset(['A', 'F']):
                assume = {key: frozenset(['A', 'F'])}
                if consistent(st, assume):
                    for x in live_alts(st, v, assume):
                        if x is not NONE:
                            out.append(('GcodeHandlers._handle_G0', '%s without %s word passes %r' % (gcode, letter, getattr(x, 'p', x)),
                                        'the command has no %s value but the handler passes one: processLinearMoves treats any '
                                        'X/Y/Z argument that is not None as a move (and any E as an extrusion), so a filament-only '
                                        'retraction is no longer recorded as one' % letter))
                            break
            if 'V' in f.pstatus(letter):
                assume = {key: frozenset(['V'])}
                if consistent(st, assume):
                    for x in live_alts(st, v, assume):
                        if not (isinstance(x, Num) and x.p.single_symbol() == 'p:%s' % letter):
                            out.append(('GcodeHandlers._handle_G0', '%s %s word passed as %r' % (gcode, letter, getattr(x, 'p', x)),
                                        'the handler must pass the value of the %s word itself' % letter))
                            break
        break
    return out


def exact_tracking(f, gcode):
    """[(function, construct, message)] when, after a G0/G1 that carries a numeric word for an axis, the tracked native
    position is not the one a firmware reaches: logical*unit + offset + homeOffset in absolute positioning,
    current + logical*unit in relative positioning (whatever the region tests answered)"""
    out = []
    arc = gcode in ('G2', 'G3')
    if gcode not in ('G0', 'G1', 'G2', 'G3'):
        return out
    out.extend(g0_wiring(f, gcode))
    if arc and not arc_executed(f):
        return out          # both centre offsets zero: the firmware ignores the command as well
    from .poly import Poly
    where = 'ExcludeRegionState.isAnyPointExcluded' if ('ExcludeRegionState', 'processLinearMoves') in f.calls \
        else ('GcodeHandlers._handle_G2' if arc else 'GcodeHandlers._handle_G0')
    # the feed rate register: F word times the feed-rate unit factor; untouched without a (valued) F word
    fkey = ('param', CMDKEY, 'F')
    for status, want in ((frozenset(['V']), Poly.sym('p:F') * Poly.sym(S_OID + '.feedRateUnitMultiplier')),
                         (frozenset(['A', 'F']), Poly.sym(S_OID + '.feedRate'))):
        if not (f.pstatus('F') & status):
            continue
        for v in f.final(S_OID, 'feedRate', {fkey: status}):
            if isinstance(v, Num) and v.p != want:
                out.append((where, '%s feed rate tracked wrongly (%s F word)' % (gcode, 'with' if 'V' in status else 'without'),
                            'after the command the tracked feed rate is %r; the firmware\'s is %r' % (v.p, want)))
                break
    for axis, letter in (('X_AXIS', 'X'), ('Y_AXIS', 'Y'), ('Z_AXIS', 'Z'), ('E_AXIS', 'E')):
        if 'V' not in f.pstatus(letter):
            continue
        aoid = '%s.position.%s' % (S_OID, axis)
        key = ('param', CMDKEY, letter)
        w = Poly.sym('p:%s' % letter) * Poly.sym(aoid + '.unitMultiplier')
        for mode in (True, False):
            if arc and not mode and letter != 'E':
                continue        # arcs in relative positioning: C08.R5 (recorded finding)
            want = w + (Poly.sym(aoid + '.offset') + Poly.sym(aoid + '.homeOffset') if mode else Poly.sym(aoid + '.current'))
            assume = {key: frozenset(['V']), ('fld', aoid, 'absoluteMode'): frozenset([mode])}
            if not consistent(f.st, assume):
                continue
            for v in f.final(aoid, 'current', assume):
                if isinstance(v, Num) and v.p != want:
                    out.append((where,
                                '%s %s tracked at the wrong place (%s positioning)' % (gcode, letter, 'absolute' if mode else 'relative'),
                                'after the move the tracked %s is %r; the printer is at %r' % (letter, v.p, want)))
                    break
    return out


def tracking_violations(f, gcode, I):
    """[(function, construct, message)] when the tracked X/Y/Z does not follow the move on this path"""
    out = []
    if ('ExcludeRegionState', 'processLinearMoves') not in f.calls and gcode not in ('G0', 'G1'):
        return exact_tracking(f, gcode)
    for axis, letter in (('X_AXIS', 'X'), ('Y_AXIS', 'Y'), ('Z_AXIS', 'Z')):
        aoid = '%s.position.%s' % (S_OID, axis)
        assume = {('fld', aoid, 'absoluteMode'): frozenset([True])} if gcode in ('G2', 'G3') else None
        for v in f.final(aoid, 'current', assume):
            if not isinstance(v, Num):
                out.append(('ExcludeRegionState.processLinearMoves', '%s %s non-numeric' % (gcode, axis),
                            'tracked position is not a number: %r' % (v,)))
                continue
            syms = v.p.symbols()
            deps = set(syms)
            for s in syms:
                deps |= I.symdeps(s)
            if any('planArc' in s and '.ret[' in s for s in syms):
                out.append(('ExcludeRegionState.isAnyPointExcluded', '%s %s left mid-arc' % (gcode, axis),
                            'tracked %s ends at an intermediate arc sample, not at the endpoint' % letter))
            if gcode in ('G0', 'G1') and (f.pstatus(letter) & frozenset(['A', 'F'])):
                # a word that is absent (or has no value) leaves its axis where it was - in either positioning mode
                key = ('param', CMDKEY, letter)
                init = '%s.current' % aoid
                for w in f.final(aoid, 'current', {key: frozenset(['A', 'F'])}):
                    if isinstance(w, Num) and w.p.single_symbol() != init:
                        out.append(('ExcludeRegionState.processLinearMoves', '%s moves %s without a %s word' % (gcode, axis, letter),
                                    'the command has no %s value but the tracked %s changes to %r (for example an absolute '
                                    'coordinate re-applied in relative mode)' % (letter, letter, w.p)))
                        break
            if gcode in ('G0', 'G1') and f.valued(letter) and ('p:%s' % letter) not in deps:
                out.append(('ExcludeRegionState.processLinearMoves', '%s %s word not tracked' % (gcode, letter),
                            'the move carries a %s word but the tracked position does not follow it (enabled=%s, excluded=%s)'
                            % (letter, f.pre_enabled, f.any_excluded)))
    out.extend(exact_tracking(f, gcode))
    return out
