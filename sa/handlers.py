"""Parallel evaluation of the G-code handlers and application of path rules."""
import importlib
import multiprocessing
import os
import time

from .core import Collector, merge_collector
from .model import Model, AnalysisError


def _worker(task):
    prop, modname, fnname, gcode, opts = task
    if os.environ.get('VERIF_TEST_KILL_WORKER') == gcode and multiprocessing.current_process().name != 'MainProcess':
        os._exit(9)         # fault injection for the pool's own test: a worker that dies must not hang the check
    try:
        from .entries import make_interp, run_gcode
        model = Model()
        I = make_interp(model, unroll=opts.get('unroll', 1), debug_logging=opts.get('debug_logging', False))
        if opts.get('param_dups'):
            I.param_dups = set(opts['param_dups'])
        if opts.get('plain'):
            # second evaluation strategy: no path merging, no loop summaries (must agree with the default one)
            I.merge_ifs = False
            I.summarise_loops = False
        mod = importlib.import_module(modname)
        prep = getattr(mod, opts['prep']) if opts.get('prep') else None
        t0 = time.time()
        budget = float(os.environ.get('VERIF_HANDLER_BUDGET', '0') or 0) or (1800.0 if opts.get('unroll', 1) > 1 else 360.0)
        I.deadline = t0 + budget
        paths = run_gcode(I, gcode, prep=prep)
        I.deadline = None
        col = Collector(prop)
        col.extra['opts'] = {k: v for k, v in opts.items() if k in ('param_dups', 'plain')}
        getattr(mod, fnname)(col, gcode, paths, I)
        col.extra['abstract_paths'] = len(paths)
        col.extra['interp_seconds'] = round(time.time() - t0, 2)
        return ('ok', gcode, col)
    except AnalysisError as ex:
        return ('analysis-error', gcode, str(ex))
    except Exception as ex:  # noqa
        import traceback
        return ('analysis-error', gcode, 'internal error: %s\n%s' % (ex, traceback.format_exc()))


CHEAP = ('G0', 'G10', 'G11', 'G20', 'G21', 'G28', 'G90', 'G91', 'G92', 'M206', 'M999')


def decorator_premise(ctx):
    """the interpreter evaluates function bodies and ignores decorators: sound for property / setter / staticmethod, and for
    memoised functions only when their result depends on nothing but the arguments"""
    from . import census
    rid = '%s.MEMO' % ctx.prop
    if rid in ctx.rules:
        return
    ctx.rule(rid, 'no function whose result depends on object or module state is memoised (lru_cache, cache, cached_property), '
                  'and no decorator changes what a call does: every call is analysed as a fresh evaluation of the body', floor=1)
    for (q, name, kind, detail, line) in census.decorated_functions(ctx.model):
        ctx.instance(rid, (q, name))
        if kind == 'memo-impure':
            ctx.report(rid, q, '@%s on a function that reads %s' % (name, detail),
                       'the result is cached per argument tuple although it also depends on %s: after that state changes (an '
                       '@-command, a settings update, a new print) calls with arguments seen before return the stale answer' % detail,
                       line=line)
        elif kind == 'unknown':
            raise AnalysisError('decorator @%s on %s is not modelled: the analysis would ignore what it does' % (name, q))


def run_path_rules(ctx, modname, fnname, gcodes, **opts):
    decorator_premise(ctx)
    if ctx.tier == 'thorough':
        opts = dict(opts, unroll=max(2, opts.get('unroll', 1)), debug_logging=True)
    tasks = []
    for g in gcodes:
        if isinstance(g, tuple):
            tasks.append((ctx.prop, modname, fnname, g[0], dict(opts, **g[1])))
        else:
            tasks.append((ctx.prop, modname, fnname, g, opts))
    gcodes = [g[0] if isinstance(g, tuple) else g for g in gcodes]
    if ctx.tier == 'thorough':
        plain = dict(opts, plain=True, unroll=1, debug_logging=False)
        tasks += [(ctx.prop, modname, fnname, g, plain) for g in gcodes if g in CHEAP]
        ctx.notes.append('thorough: region/loop unrolling depth 2, debug-logging branches explored, and the handlers %s '
                         're-evaluated without path merging / loop summaries' % ', '.join(g for g in gcodes if g in CHEAP))
    jobs = min(len(tasks), int(os.environ.get('VERIF_JOBS', '0')) or multiprocessing.cpu_count())
    if jobs <= 1:
        results = [_worker(t) for t in tasks]
    else:
        # a process pool that notices a dying worker (multiprocessing.Pool waits for ever when a worker is killed, for
        # example by the kernel's out-of-memory handler); whatever is missing afterwards is evaluated in this process
        from concurrent.futures import ProcessPoolExecutor, as_completed
        from concurrent.futures.process import BrokenProcessPool
        mp = multiprocessing.get_context('fork')
        results = [None] * len(tasks)
        try:
            with ProcessPoolExecutor(jobs, mp_context=mp) as ex:
                futs = dict((ex.submit(_worker, t), i) for i, t in enumerate(tasks))
                for fut in as_completed(futs):
                    results[futs[fut]] = fut.result()
        except BrokenProcessPool:
            ctx.notes.append('a worker process died; the handlers it left unfinished were evaluated sequentially')
        for i, t in enumerate(tasks):
            if results[i] is None:
                results[i] = _worker(t)
    per = {}
    for status, gcode, payload in results:
        if status != 'ok':
            # the other handlers' results (and the rules that follow) still count: a violation found elsewhere is reported,
            # and only when nothing is found does the unfinished analysis fail the run (Ctx.finish)
            ctx.deferred_errors.append('handler %s: %s' % (gcode, payload))
            continue
        per[gcode] = per.get(gcode, 0) + payload.extra.get('abstract_paths', 0)
        merge_collector(ctx, payload)
    ctx.extra['paths_per_handler'] = per
    return per
