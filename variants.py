"""Catalogue of seeded variants (must be detected) and neutral refactors (must stay silent)."""
S = 'ExcludeRegionState.py'
H = 'GcodeHandlers.py'
R = 'RetractionState.py'
A = 'AxisPosition.py'
P = '__init__.py'

VARIANTS = []


def V(name, props, edits, neutral=False):
    VARIANTS.append({'name': name, 'props': props, 'edits': edits, 'neutral': neutral})


# ---------------------------------------------------------------- C01 / C02 / C09
V('c01-cmd-from-excluded-branch', ['C01'], [(S, """        if (not self.excluding):
            returnCommands = self.enterExcludedRegion(cmd)
        else:
            returnCommands = []
""", """        if (not self.excluding):
            returnCommands = self.enterExcludedRegion(cmd)
        else:
            returnCommands = [cmd]
""")])
V('c01-enabled-guard-inverted', ['C01', 'C02'], [(S, """        if (self._exclusionEnabled):
            for region in self.excludedRegions:""", """        if (not self._exclusionEnabled):
            for region in self.excludedRegions:""")])
V('c01-region-loop-break', ['C01'], [(S, """                if (region.containsPoint(x, y)):
                    return True
""", """                if (region.containsPoint(x, y)):
                    return True
                break
""")])
V('c01-range-step-4', ['C01'], [(S, "for index in range(0, len(xyPairs), 2):", "for index in range(0, len(xyPairs), 4):")])
V('c01-excluding-test-before-region-test', ['C01'], [(S, """        elif (self.isAnyPointExcluded(*xyPairs)):
            wasExcluding = self.excluding""", """        elif (not self.excluding and deltaE == 0 and finalZ is not None):
            returnCommands = [cmd]
        elif (self.isAnyPointExcluded(*xyPairs)):
            wasExcluding = self.excluding""")])
V('c01-recovery-forwarded-while-excluding', ['C01', 'C05'], [(S, """                if (isRecoveryCommand):
                    self.lastRetraction.recoverExcluded = True
""", """                if (isRecoveryCommand):
                    self.lastRetraction.recoverExcluded = True
                    returnCommands.append(cmd)
""")])
V('c01-tracking-only-when-enabled', ['C01', 'C14'], [(S, """        for index in range(0, len(xyPairs), 2):
            x = xAxis.setLogicalPosition(xyPairs[index])
            y = yAxis.setLogicalPosition(xyPairs[index + 1])

            if (not anyExcluded and self.isPointExcluded(x, y)):
                anyExcluded = True
""", """        for index in range(0, len(xyPairs), 2):
            if (not self._exclusionEnabled):
                break
            x = xAxis.setLogicalPosition(xyPairs[index])
            y = yAxis.setLogicalPosition(xyPairs[index + 1])

            if (not anyExcluded and self.isPointExcluded(x, y)):
                anyExcluded = True
""")])
V('c01-early-return-first-excluded', ['C01'], [(S, """            if (not anyExcluded and self.isPointExcluded(x, y)):
                anyExcluded = True
""", """            if (self.isPointExcluded(x, y)):
                return True
""")])
V('c02-nonmove-feedrate-dropped', ['C02'], [(S, """        elif (not self.excluding):
            # something else (no move, no extrude, probably just setting feedrate)
            return [cmd]
""", """        elif (not self.excluding and self.lastRetraction is None):
            # something else (no move, no extrude, probably just setting feedrate)
            return [cmd]
""")])
V('c02-g21-ignored', ['C02'], [(H, """        self.state.setUnitMultiplier(1)
""", """        self.state.setUnitMultiplier(1)
        return self.state.ignoreGcodeCommand()
""")])
V('c02-generated-retract-outside', ['C02'], [(S, """            if (self.excluding):
                # If this is the first retraction while excluding allow the retraction to execute""", """            if (self.excluding or retract.firmwareRetract):
                # If this is the first retraction while excluding allow the retraction to execute""")])
V('c02-cmd-stripped', ['C02'], [(S, """            returnCommands = self.recoverRetractionIfNeeded(cmd, False)
        else:
            returnCommands = [cmd]
""", """            returnCommands = self.recoverRetractionIfNeeded(cmd, False)
        else:
            returnCommands = [cmd.strip()]
""")])
V('c09-normalisation-removed-plm', ['C09'], [(S, """        if (not returnCommands):
            returnCommands = self.ignoreGcodeCommand()

        return returnCommands

    def enterExcludedRegion""", """        return returnCommands

    def enterExcludedRegion""")])
V('c09-normalisation-removed-g10', ['C09'], [(H, """        if (not returnCommands):
            return self.state.ignoreGcodeCommand()

        return returnCommands

    def _handle_G11""", """        return returnCommands

    def _handle_G11""")])
V('c09-halfdist-guard-removed', ['C09'], [(H, "            if (halfDist <= abs(radius)):", "            if (halfDist <= abs(radius) or clockwise):")])
V('c09-new-raise-in-handler', ['C09'], [(H, """        if (i or j):
            xyPairs = self.planArc(x, y, i, j, clockwise)""", """        if (radius is not None and radius < 0 and extruderPosition is not None):
            raise ValueError("negative radius with extrusion is not supported")

        if (i or j):
            xyPairs = self.planArc(x, y, i, j, clockwise)""")])
V('c09-zero-segment-guard-removed', ['C09'], [(H, "numSegments = max(1, int(math.ceil(arcLength / MM_PER_ARC_SEGMENT)))", "numSegments = int(math.ceil(arcLength / MM_PER_ARC_SEGMENT))")])

# ---------------------------------------------------------------- neutral refactors
V('n-ifelif-to-membership', ['C01', 'C02', 'C09'], [(H, """            if (label == "X"):
                homeX = True
            elif (label == "Y"):
                homeY = True
            elif (label == "Z"):
                homeZ = True
""", """            if (label in ("X",)):
                homeX = True
            elif (label == "Y"):
                homeY = True
            elif ("Z" == label):
                homeZ = True
""")], neutral=True)
V('n-format-to-fstring', ['C01', 'C02', 'C09', 'C07'], [(S, """            "G92 E{e}".format(e=plainDecimal(self.position.E_AXIS.nativeToLogical()))""", """            f"G92 E{plainDecimal(self.position.E_AXIS.nativeToLogical())}\"""")], neutral=True)
V('n-helper-extracted', ['C01', 'C02', 'C09'], [(S, """        if (not isMove):
            for val in xyPairs:
                if (val is not None):
                    isMove = True
                    break
""", """        if (not isMove):
            isMove = self._hasCoordinate(xyPairs)
"""), (S, """    def enterExcludedRegion(self, cmd):""", """    def _hasCoordinate(self, values):
        for val in values:
            if (val is not None):
                return True
        return False

    def enterExcludedRegion(self, cmd):""")], neutral=True)
V('n-demorgan', ['C01', 'C02', 'C09'], [(S, """        elif (not self.excluding):
            # something else (no move, no extrude, probably just setting feedrate)
            return [cmd]

        return []""", """        elif (self.excluding):
            return []

        return [cmd]""")], neutral=True)
V('n-renamed-locals', ['C01', 'C02', 'C09'], [(S, """        returnCommands = []

        if (self.lastRetraction is not None):
            self.lastRetraction.allowCombine = False
""", """        returnCommands = []
        pendingRetraction = self.lastRetraction

        if (pendingRetraction is not None):
            pendingRetraction.allowCombine = False
""")], neutral=True)

G = 'GcodeParser.py'
SP = 'StreamProcessor.py'
RR = 'RectangularRegion.py'
CR = 'CircularRegion.py'
PO = 'Position.py'
EG = 'ExcludedGcode.py'

# ---------------------------------------------------------------- C03
V('c03-z-order-swapped', ['C03'], [(S, """        if (newZ > oldZ):
            # Move Z axis _up_ to new position""", """        if (newZ < oldZ):
            # Move Z axis _up_ to new position"""), (S, """        if (newZ < oldZ):
            # Move Z axis _down_ to new position""", """        if (newZ > oldZ):
            # Move Z axis _down_ to new position""")])
V('c03-g92e-dropped', ['C03', 'C04'], [(S, """        returnCommands.append(
            # Set logical extruder position
            "G92 E{e}".format(e=plainDecimal(self.position.E_AXIS.nativeToLogical()))
        )

        newZ""", """        newZ""")])
V('c03-z-from-lastposition', ['C03'], [(S, """            z=plainDecimal(newZ)""", """            z=plainDecimal(oldZ)""")])
V('c03-excluding-not-cleared', ['C03', 'C15'], [(S, """        self.excluding = False

        # Moving back into printable region, process recovery command(s) if needed""", """        # Moving back into printable region, process recovery command(s) if needed""")])
V('c03-feedrate-not-converted', ['C03'], [(S, """            f=plainDecimal(self.feedRate / self.feedRateUnitMultiplier),
            z=plainDecimal(newZ)""", """            f=plainDecimal(self.feedRate),
            z=plainDecimal(newZ)""")])
V('c03-nativetological-without-offset', ['C03', 'C08'], [(A, """        if (absoluteMode):
            value -= self.offset + self.homeOffset
        else:
            value -= self.current

        return value / self.unitMultiplier""", """        if (absoluteMode):
            value -= self.homeOffset
        else:
            value -= self.current

        return value / self.unitMultiplier""")])
V('c03-f1-reverted', ['C03'], [(S, """            if (self.excluding and not wasExcluding):
                # The move entering the region is not executed, so the tool physically stays at the
                # Z height it had before this command (used to order the Z move when exiting)
                self.lastPosition.Z_AXIS.current = priorZ
""", "")])

# ---------------------------------------------------------------- C04 / C05
V('c04-direction-sign-flipped', ['C04', 'C05', 'C01'], [(R, "            amount = self.extrusionAmount * direction", "            amount = -self.extrusionAmount * direction")])
V('c04-restore-dropped', ['C04'], [(R, """            eAxis.current -= amount

""", """
""")])
V('c05-recoverexcluded-not-cleared', ['C05', 'C04'], [(S, """            self.lastRetraction.recoverExcluded = False
            if (not self.lastRetraction.firmwareRetract):""", """            if (not self.lastRetraction.firmwareRetract):""")])
V('c05-lastretraction-not-cleared', ['C05', 'C04'], [(S, """        self.lastRetraction = None

        if (isRecoveryCommand and lastRetraction.recoverExcluded):""", """        if (isRecoveryCommand and lastRetraction.recoverExcluded):""")])
# (two catalogue entries were dropped: "recoverExcluded set for extruding moves" and "second in-region retraction executed" only
#  change behaviour when the file prints while it is itself retracted, which the quantifier of C05 excludes - they are
#  equivalent mutants under the property's environment and the typestate machine rightly stays silent)
V('c05-g10-g11-swapped', ['C05'], [(R, """            cmd = "G11" if (direction == -1) else "G10\"""", """            cmd = "G11" if (direction == 1) else "G10\"""")])
V('c05-fw-params-from-wrong-command', ['C05'], [(R, """            params = GCODE_PARAMS_REGEX.sub("\\\\1", self.originalCommand)""", """            params = GCODE_PARAMS_REGEX.sub("\\\\1", cmd)""")])

# ---------------------------------------------------------------- C06
V('c06-clear-dropped', ['C06'], [(S, """            self.pendingCommands.clear()
""", "")])
V('c06-first-overwrites', ['C06'], [(S, """            if (not (gcode in self.pendingCommands)):
                self.pendingCommands[gcode] = cmd""", """            self.pendingCommands[gcode] = cmd""")])
V('c06-last-keeps-position', ['C06'], [(S, """            self.pendingCommands.pop(gcode, None)
            self.pendingCommands[gcode] = cmd""", """            self.pendingCommands[gcode] = cmd""")])
V('c06-exit-script-before-pending', ['C06', 'C03'], [(S, """        returnCommands = []

        if (self.pendingCommands):
            for gcode, cmdArgs in self.pendingCommands.items():""", """        returnCommands = []
        if (self.exitingExcludedRegionGcode is not None):
            returnCommands.extend(self.exitingExcludedRegionGcode)

        if (self.pendingCommands):
            for gcode, cmdArgs in self.pendingCommands.items():"""), (S, """            self.pendingCommands.clear()

        if (self.exitingExcludedRegionGcode is not None):
            returnCommands.extend(self.exitingExcludedRegionGcode)

        return returnCommands""", """            self.pendingCommands.clear()

        return returnCommands""")])
V('c06-resetstate-keeps-pending', ['C06', 'C10'], [(S, """        self.pendingCommands = OrderedDict()

    def getRegion""", """        if (clearExcludedRegions):
            self.pendingCommands = OrderedDict()

    def getRegion""")])
V('c06-merge-loses-earlier-params', ['C06'], [(S, """            pendingArgs = self.pendingCommands.pop(gcode, {})""", """            self.pendingCommands.pop(gcode, None)
            pendingArgs = {}""")])

# ---------------------------------------------------------------- C07
V('c07-g-format', ['C07'], [(R, """                "G92 E{e}".format(e=plainDecimal(eAxis.nativeToLogical()))""", """                "G92 E{e:g}".format(e=eAxis.nativeToLogical())""")])
V('c07-bare-str', ['C07'], [(S, """                x=plainDecimal(self.position.X_AXIS.nativeToLogical()),""", """                x=self.position.X_AXIS.nativeToLogical(),""")])
V('c07-helper-only-lowercase-e', ['C07'], [('CommonMixin.py', """    if (isinstance(value, float) and (("e" in text) or ("E" in text))):""", """    if (isinstance(value, float) and ("E" in text)):""")])
V('c07-duplicate-letter', ['C07'], [(S, """            "G0 F{f} X{x} Y{y}".format(""", """            "G0 F{f} X{x} X{y}".format(""")])
V('c07-setter-str', ['C07'], [(G, "                    key += plainDecimal(val)", "                    key += str(val)")])

# ---------------------------------------------------------------- C08
V('c08-g20-three-axes', ['C08', 'C01', 'C02'], [(PO, """        self.Z_AXIS.setUnitMultiplier(unitMultiplier)
        self.E_AXIS.setUnitMultiplier(unitMultiplier)""", """        self.Z_AXIS.setUnitMultiplier(unitMultiplier)""")])
V('c08-g91-skips-z', ['C08', 'C01', 'C02'], [(PO, """        self.Y_AXIS.setAbsoluteMode(absolute)
        self.Z_AXIS.setAbsoluteMode(absolute)""", """        self.Y_AXIS.setAbsoluteMode(absolute)""")])
V('c08-logicaltonative-drops-homeoffset', ['C08', 'C03'], [(A, """            value += self.offset + self.homeOffset""", """            value += self.offset""")])
V('c08-logical-passed-to-region-test', ['C08', 'C01'], [(S, """            if (not anyExcluded and self.isPointExcluded(x, y)):""", """            if (not anyExcluded and self.isPointExcluded(xyPairs[index], xyPairs[index + 1])):""")])
V('c08-feed-multiplier-not-set', ['C08'], [(S, """        self.feedRateUnitMultiplier = unitMultiplier
        self.position.setUnitMultiplier(unitMultiplier)""", """        self.position.setUnitMultiplier(unitMultiplier)""")])
V('c08-direct-write-of-logical', ['C08'], [(H, """                    position.E_AXIS.setLogicalPosition(value)""", """                    position.E_AXIS.current = value""")])

# ---------------------------------------------------------------- C10 / C11
V('c10-field-dropped-from-reset', ['C10'], [(S, """        self.lastRetraction = None
        self.lastPosition = None""", """        self.lastPosition = None""")])
V('c10-new-field-only-in-init', ['C10'], [(S, """        self.numExcludedCommands += 1
        return IGNORE_GCODE_CMD""", """        self.numExcludedCommands += 1
        self.totalIgnored = getattr(self, "totalIgnored", 0) + 1
        return IGNORE_GCODE_CMD""")])
V('c10-print-started-without-reset', ['C10', 'C11'], [(P, """            self._logger.info("Printing started")
            self.state.resetState()
            self._activePrintJob = True""", """            self._logger.info("Printing started")
            self._activePrintJob = True""")])
V('c10-reset-aliases-position', ['C10'], [(S, """        self.position = Position()
        self.feedRate = 0""", """        self.position = self.position if hasattr(self, "position") else Position()
        self.feedRate = 0""")])
V('c11-paused-ends-print', ['C11'], [(P, """                Events.PRINT_DONE,
                Events.PRINT_FAILED,""", """                Events.PRINT_DONE,
                Events.PRINT_PAUSED,
                Events.PRINT_FAILED,""")])
V('c11-cancelling-removed', ['C11'], [(P, """                Events.PRINT_CANCELLING,
""", "")])
V('c11-hook-guard-removed', ['C11'], [(P, """        if (self.isActivePrintJob):
            self.gcodeHandlers.handleAtCommand(commInstance, cmd, parameters)""", """        self.gcodeHandlers.handleAtCommand(commInstance, cmd, parameters)""")])
V('c11-file-selected-keeps-regions', ['C11', 'C13'], [(P, """            self._logger.info("File selected, resetting internal state")
            self.state.resetState(True)""", """            self._logger.info("File selected, resetting internal state")
            self.state.resetState()""")])
V('c11-clear-unconditional', ['C11'], [(P, """            if (self.clearRegionsAfterPrintFinishes):
                self.state.resetState(True)""", """            if (self.clearRegionsAfterPrintFinishes or event == Events.PRINT_DONE):
                self.state.resetState(True)""")])

# ---------------------------------------------------------------- C12 / C13
V('c12-delete-guard-inverted', ['C12'], [(P, """        if (not self.mayShrinkRegionsWhilePrinting and self.isActivePrintJob):
            return "Cannot delete region while printing", 409""", """        if (self.mayShrinkRegionsWhilePrinting and self.isActivePrintJob):
            return "Cannot delete region while printing", 409""")])
V('c12-update-flag-or', ['C12'], [(P, """                newRegion,
                not self.mayShrinkRegionsWhilePrinting and self.isActivePrintJob""", """                newRegion,
                not (self.mayShrinkRegionsWhilePrinting or self.isActivePrintJob)""")])
V('c12-roles-swapped', ['C12'], [(S, """                if (mustContainOldRegion and not newRegion.containsRegion(region)):""", """                if (mustContainOldRegion and not region.containsRegion(newRegion)):""")])
V('c12-store-before-check', ['C12'], [(S, """            if (region.id == newRegion.id):
                if (mustContainOldRegion""", """            if (region.id == newRegion.id):
                self.excludedRegions[index] = newRegion
                if (mustContainOldRegion""")])
V('c12-region-setter', ['C12'], [(RR, """    def containsPoint(self, x, y):""", """    def moveTo(self, x, y):
        self.x2 = x + (self.x2 - self.x1)
        self.y2 = y + (self.y2 - self.y1)
        self.x1 = x
        self.y1 = y

    def containsPoint(self, x, y):""")])
V('c13-notification-removed', ['C13'], [(P, """        if (self.state.deleteRegion(idToDelete)):
            self._notifyExcludedRegionsChanged()""", """        self.state.deleteRegion(idToDelete)""")])
V('c13-notification-before-mutation', ['C13'], [(P, """            self.state.addRegion(region)
            self._notifyExcludedRegionsChanged()""", """            self._notifyExcludedRegionsChanged()
            self.state.addRegion(region)""")])
V('c13-anonymous-check-after-dispatch', ['C13'], [(P, """        if current_user.is_anonymous():
            return "Insufficient rights", 403

        self._logger.debug("API command received: %s", data)

        if (command == "deleteExcludeRegion"):
            return self._handleDeleteExcludeRegion(data.get("id"))""", """        self._logger.debug("API command received: %s", data)

        if (command == "deleteExcludeRegion"):
            return self._handleDeleteExcludeRegion(data.get("id"))

        if current_user.is_anonymous():
            return "Insufficient rights", 403""")])
V('c13-collision-check-removed', ['C13'], [(S, """        if (self.getRegion(region.id) is None):
            self._logger.info("New exclude region added: %s", region)
            self.excludedRegions.append(region)
        else:
            raise ValueError("Region id collision")""", """        self._logger.info("New exclude region added: %s", region)
        self.excludedRegions.append(region)""")])
V('c13-get-sorted', ['C13'], [(P, """        return flask.jsonify(
            excluded_regions=[region.toDict() for region in self.state.excludedRegions]""", """        return flask.jsonify(
            excluded_regions=[region.toDict() for region in sorted(self.state.excludedRegions, key=lambda r: r.id)]""")])

# ---------------------------------------------------------------- C14 / C15
V('c14-actions-swapped', ['C14'], [(H, """                    if (entry.action == ENABLE_EXCLUSION):
                        self.state.enableExclusion(cmd + " " + parameters)
                    elif (entry.action == DISABLE_EXCLUSION):""", """                    if (entry.action == DISABLE_EXCLUSION):
                        self.state.enableExclusion(cmd + " " + parameters)
                    elif (entry.action == ENABLE_EXCLUSION):""")])
V('c14-disable-without-exit', ['C14'], [(S, """            if (self.excluding):
                returnCommands = self.exitExcludedRegion(context)
        else:
            self._logger.debug("Exclusion already disabled, NOP: context=%s", context)""", """        else:
            self._logger.debug("Exclusion already disabled, NOP: context=%s", context)""")])
V('c14-streaming-test-removed', ['C14'], [(H, """        if (commInstance.isStreaming()):
            return False

""", "")])
V('c14-exit-commands-not-sent', ['C14'], [(H, """                            commInstance.sendCommand(command)
""", """                            pass
""")])
V('c15-condition-weakened', ['C15'], [(P, """            if (self.isActivePrintJob and self.state.excluding):""", """            if (self.isActivePrintJob or self.state.excluding):""")])
V('c15-script-name-changed', ['C15'], [(P, """(scriptName == "afterPrintDone")""", """(scriptName == "afterPrintCancelled")""")])
V('c15-commands-as-postfix', ['C15'], [(P, """                return (self.state.exitExcludedRegion("Print done"), None)""", """                return (None, self.state.exitExcludedRegion("Print done"))""")])

# ---------------------------------------------------------------- C16 / C17
V('c16-endpoint-not-appended', ['C16', 'C01'], [(H, """        rval += [endX, endY]
""", """        rval += [centerX + math.cos(angle + angularIncrement) * radius, centerY + math.sin(angle + angularIncrement) * radius]
""")])
V('c16-range-short', ['C16'], [(H, "        for dummy in range(1, numSegments):", "        for dummy in range(1, numSegments - 1):")])
V('c16-ceil-to-floor', ['C16'], [(H, "numSegments = max(1, int(math.ceil(arcLength / MM_PER_ARC_SEGMENT)))", "numSegments = max(1, int(math.floor(arcLength / MM_PER_ARC_SEGMENT)))")])
V('c16-segment-length-5', ['C16'], [(H, "MM_PER_ARC_SEGMENT = 1\n", "MM_PER_ARC_SEGMENT = 5\n")])
V('c16-clockwise-adjust-inverted', ['C16'], [(H, """        if (clockwise):
            angularTravel -= TWO_PI""", """        if (not clockwise):
            angularTravel -= TWO_PI""")])
V('c16-start-angle-wrong', ['C16'], [(H, "        angle = math.atan2(-j, -i)", "        angle = math.atan2(j, i)")])
V('c16-sin-cos-different-angle', ['C16'], [(H, "centerY + math.sin(angle) * radius]", "centerY + math.sin(angle + angularIncrement) * radius]")])
V('c17-strict-comparison', ['C17', 'C12'], [(RR, "        return (x >= self.x1) and (x <= self.x2) and (y >= self.y1) and (y <= self.y2)", "        return (x >= self.x1) and (x < self.x2) and (y >= self.y1) and (y <= self.y2)")])
V('c17-normalisation-removed', ['C17'], [(RR, """            if (y2 < y1):
                y1, y2 = y2, y1
""", "")])
V('c17-rect-rect-wrong-side', ['C17', 'C12'], [(RR, """                (otherRegion.x2 <= self.x2) and""", """                (otherRegion.x1 <= self.x2) and""")])
V('c17-cx-without-radius', ['C17', 'C12'], [(RR, """                (otherRegion.cx + otherRegion.r <= self.x2) and""", """                (otherRegion.cx <= self.x2) and""")])
V('c17-circle-circle-minus', ['C17', 'C12'], [(CR, """+ otherRegion.r
            return (dist <= self.r)""", """- otherRegion.r
            return (dist <= self.r)""")])
V('c17-circle-strict', ['C17'], [(CR, "        return self.r >= math.hypot(x - self.cx, y - self.cy)", "        return self.r > math.hypot(x - self.cx, y - self.cy)")])

# ---------------------------------------------------------------- C18 / C19 / C20
V('c18-catchall-plus', ['C18'], [(G, '''    r"[^;\\r\\n]*?" +''', '''    r"[^;\\r\\n]+?" +''')])
V('c18-cr-dropped-from-eol', ['C18'], [(G, '''PAT_EOL = r"(\\r\\n|\\r|\\n|\\Z)"''', '''PAT_EOL = r"(\\r\\n|\\n|\\Z)"''')])
V('c18-tiling-group-noncapturing', ['C18'], [(G, '''    r")(" + PAT_WHITESPACE + ")" +''', '''    r")(?:" + PAT_WHITESPACE + ")" +''')])
V('c18-fulltext-order', ['C18'], [(G, """            self.trailingWhitespace,
            "" if (self.comment is None) else self.comment,""", """            "" if (self.comment is None) else self.comment,
            self.trailingWhitespace,""")])
V('c18-length-wrong', ['C18'], [(G, "        self.length = match.end() - self.offset", "        self.length = match.end() - match.start() - 1")])
V('c19-no-leading-dot', ['C19'], [(G, '''PAT_SIGNED_FLOAT = r"[-+]?[0-9]*\\.?[0-9]+"''', '''PAT_SIGNED_FLOAT = r"[-+]?[0-9]+\\.?[0-9]*"''')])
V('c19-upper-removed', ['C19'], [(G, """                name = name.upper()
""", "")])
V('c19-x-routed-to-y', ['C19'], [(H, """                elif (label == "X"):
                    x = value
                elif (label == "Y"):
                    y = value
                elif (label == "Z"):
                    z = value

        return self.state.processLinearMoves(cmd, extruderPosition, feedRate, z, x, y)""", """                elif (label == "X"):
                    x = value
                elif (label == "Y"):
                    y = value
                elif (label == "Z"):
                    z = value

        return self.state.processLinearMoves(cmd, extruderPosition, feedRate, z, y, x)""")])
V('c19-dict-first-wins', ['C19'], [(G, """            for name, value in self.parameterItems():
                params[name] = value""", """            for name, value in self.parameterItems():
                params.setdefault(name, value)""")])
V('c19-m206-y-to-x', ['C19'], [(H, """                elif (label == "Y"):
                    position.Y_AXIS.setHomeOffset(value)""", """                elif (label == "Y"):
                    position.X_AXIS.setHomeOffset(value)""")])
V('c19-handler-first-wins', ['C19'], [(H, """                elif (label == "X"):
                    x = value
                elif (label == "Y"):
                    y = value
                elif (label == "Z"):
                    z = value

        return self.state.processLinearMoves(cmd, extruderPosition, feedRate, z, x, y)""", """                elif (label == "X" and x is None):
                    x = value
                elif (label == "Y"):
                    y = value
                elif (label == "Z"):
                    z = value

        return self.state.processLinearMoves(cmd, extruderPosition, feedRate, z, x, y)""")])
V('c19-g92-first-wins', ['C19'], [(H, """        position = self.state.position

        for label, value in self.gcodeParser.parse(cmd).parameterItems():
            if (value is not None):
                if (label == "E"):
                    # Note: 1.0 Marlin""", """        position = self.state.position
        seen = set()

        for label, value in self.gcodeParser.parse(cmd).parameterItems():
            if (label in seen):
                continue
            seen.add(label)
            if (value is not None):
                if (label == "E"):
                    # Note: 1.0 Marlin""")])
V('c20-shallow-copy', ['C20'], [(SP, "            copy.deepcopy(gcodeHandlers.state),", "            copy.copy(gcodeHandlers.state),")])
V('c20-live-handlers-stored', ['C20'], [(SP, """        self.gcodeHandlers = GcodeHandlers(
            copy.deepcopy(gcodeHandlers.state),
            self._logger
        )""", """        self.gcodeHandlers = gcodeHandlers""")])
V('c20-eol-not-appended', ['C20'], [(SP, """            if (lines):
                return self.eol.join(lines) + self.eol""", """            if (lines):
                return self.eol.join(lines)""")])
V('c20-stale-source', ['C20'], [(SP, """        return source

    @staticmethod""", """        return parsed.source

    @staticmethod""")])
V('c20-include-comment', ['C20'], [(SP, """                includeComment=False,
                includeEol=False
            ),
            parsed.gcode,""", """                includeComment=True,
                includeEol=False
            ),
            parsed.gcode,""")])

# ---------------------------------------------------------------- more neutral refactors
V('n-exit-fstrings', ['C03', 'C07', 'C06'], [(S, """        moveZcmd = "G0 F{f} Z{z}".format(
            f=plainDecimal(self.feedRate / self.feedRateUnitMultiplier),
            z=plainDecimal(newZ)
        )""", """        feed = plainDecimal(self.feedRate / self.feedRateUnitMultiplier)
        moveZcmd = "G0 F%s Z%s" % (feed, plainDecimal(newZ))""")], neutral=True)
# a De Morgan rewrite of the rectangle test is NOT neutral: with a NaN corner every comparison is False, the original answers
# False and the rewritten form True (C17.R5, added in round 9, reports it - the entry used to be listed as neutral)
V('c17-containspoint-de-morgan-nan', ['C17', 'C12'], [(RR, "        return (x >= self.x1) and (x <= self.x2) and (y >= self.y1) and (y <= self.y2)", "        return not (x < self.x1 or x > self.x2 or y < self.y1 or self.y2 < y)")])
V('n-containspoint-reordered', ['C17', 'C12', 'C01'], [(RR, "        return (x >= self.x1) and (x <= self.x2) and (y >= self.y1) and (y <= self.y2)", "        return (self.y1 <= y) and (y <= self.y2) and (self.x1 <= x) and (self.x2 >= x)")], neutral=True)
V('n-on-event-elif-chain', ['C11', 'C13', 'C10'], [(P, """        elif (event in (
                Events.PRINT_DONE,
                Events.PRINT_FAILED,
                Events.PRINT_CANCELLING,
                Events.PRINT_CANCELLED,
                Events.ERROR
        )):""", """        elif (event == Events.PRINT_DONE or event == Events.PRINT_FAILED or event == Events.PRINT_CANCELLING
              or event == Events.PRINT_CANCELLED or event == Events.ERROR):""")], neutral=True)
V('n-retraction-helper', ['C04', 'C05', 'C01'], [(R, """            amount = self.extrusionAmount * direction
            eAxis = position.E_AXIS
            eAxis.current += amount""", """            eAxis = position.E_AXIS
            amount = direction * self.extrusionAmount
            eAxis.current = eAxis.current + amount""")], neutral=True)
V('n-reset-reordered', ['C10', 'C06'], [(S, """        self.lastRetraction = None
        self.lastPosition = None
        self.pendingCommands = OrderedDict()""", """        self.pendingCommands = OrderedDict()
        self.lastPosition = None
        self.lastRetraction = None""")], neutral=True)
V('n-stream-local-var', ['C20'], [(SP, """        if (parsed.eol):
            self.eol = parsed.eol""", """        lineEnding = parsed.eol
        if (lineEnding):
            self.eol = lineEnding""")], neutral=True)
V('n-planarc-renamed', ['C16', 'C09'], [(H, """        angle = math.atan2(-j, -i)
        angularIncrement = angularTravel / numSegments

        rval = []
        for dummy in range(1, numSegments):
            angle += angularIncrement
            rval += [centerX + math.cos(angle) * radius, centerY + math.sin(angle) * radius]""", """        theta = math.atan2(-j, -i)
        step = angularTravel / numSegments

        rval = []
        for dummy in range(1, numSegments):
            theta = theta + step
            rval.extend([centerX + radius * math.cos(theta), centerY + radius * math.sin(theta)])""")], neutral=True)
V('n-parse-conditional-expression', ['C18'], [(G, """        self._checksum = match.group(10)
        self._rawChecksum = None
        if (self._checksum is not None):
            self._rawChecksum = "*" + self._checksum
            self._checksum = int(self._checksum)
            self.text = self.text[:-len(self._rawChecksum)]""", """        checksumText = match.group(10)
        self._rawChecksum = None if (checksumText is None) else "*" + checksumText
        self._checksum = None if (checksumText is None) else int(checksumText)
        if (self._rawChecksum is not None):
            self.text = self.text[:-len(self._rawChecksum)]""")], neutral=True)

# ---------------------------------------------------------------- round-4 rules (C08.R7, C12.R5, C14.R6, C15.R3, C16.R8, C19.R6)
V('c08-z-applied-twice', ['C08'], [(S, """        if (finalZ is not None):
            self.position.Z_AXIS.setLogicalPosition(finalZ)
            isMove = True
""", """        if (finalZ is not None):
            self.position.Z_AXIS.setLogicalPosition(finalZ)
            isMove = (self.position.Z_AXIS.setLogicalPosition(finalZ) is not None)
""")])
V('c08-last-point-reapplied', ['C08', 'C01'], [(S, """            if (not anyExcluded and self.isPointExcluded(x, y)):
                anyExcluded = True
""", """            if (not anyExcluded and self.isPointExcluded(x, y)):
                anyExcluded = True
                xAxis.setLogicalPosition(xyPairs[-2])
""")])
V('c12-add-collision-replaces', ['C12'], [(P, """        try:
            self.state.addRegion(region)
            self._notifyExcludedRegionsChanged()
            return None
        except ValueError as err:
            return err.args[0], 409
""", """        try:
            self.state.addRegion(region)
            self._notifyExcludedRegionsChanged()
            return None
        except ValueError as err:
            if (region.id is not None):
                self.state.replaceRegion(region)
                self._notifyExcludedRegionsChanged()
                return None
            return err.args[0], 409
""")])
V('c14-owed-recovery-dropped-on-disable', ['C14'], [(S, """            # If exclusion was disabled, stop any current exclusion
            if (self.excluding):
                returnCommands = self.exitExcludedRegion(context)
""", """            # If exclusion was disabled, stop any current exclusion
            if (self.excluding):
                returnCommands = self.exitExcludedRegion(context)
                self.lastRetraction = None
""")])
V('c15-exit-script-returned-when-nothing-else', ['C15', 'C01'], [(S, """        returnCommands = []

        if (self.pendingCommands):""", """        returnCommands = self.exitingExcludedRegionGcode if (not self.pendingCommands) else []
        if (returnCommands is None):
            returnCommands = []

        if (self.pendingCommands):""")])
V('c16-offsets-swapped', ['C16'], [(H, """            xyPairs = self.planArc(x, y, i, j, clockwise)""", """            xyPairs = self.planArc(x, y, j, i, clockwise)""")])
V('c16-radius-form-other-endpoint', ['C16'], [(H, """            (i, j) = self.computeArcCenterOffsets(x, y, radius, clockwise)""",
   """            (i, j) = self.computeArcCenterOffsets(y, x, radius, clockwise)""")])
V('c16-only-endpoint-tested', ['C16'], [(H, """            return self.state.processLinearMoves(cmd, extruderPosition, feedRate, z, *xyPairs)""",
   """            return self.state.processLinearMoves(cmd, extruderPosition, feedRate, z, *xyPairs[-2:])""")])
V('c16-g3-clockwise', ['C16'], [(H, """        clockwise = (gcode == "G2")""", """        clockwise = (gcode in ("G2", "G3"))""")])
V('c16-sticky-offsets', ['C16'], [(H, """TWO_PI = 2 * math.pi
""", """TWO_PI = 2 * math.pi
LAST_OFFSETS = {"I": 0, "J": 0}
"""), (H, """                elif (label == "I"):
                    i = value
                elif (label == "J"):
                    j = value
""", """                elif (label == "I"):
                    LAST_OFFSETS["I"] = i = value
                elif (label == "J"):
                    LAST_OFFSETS["J"] = j = value
"""), (H, """        if (i or j):
            xyPairs = self.planArc(x, y, i, j, clockwise)""", """        if (radius is None):
            i = i or LAST_OFFSETS["I"]
        if (i or j):
            xyPairs = self.planArc(x, y, i, j, clockwise)""")])
V('c19-g10-label-substring', ['C19'], [(H, """            if (label in ("P", "L")):
                return None
""", """            if (label in "PL"):
                return None
""")])
V('c19-g28-empty-label-homes', ['C19'], [(H, """            elif (label == "Z"):
                homeZ = True
""", """            elif (label == "Z" or not label):
                homeZ = True
""")])
V('n-g10-label-set', ['C19', 'C05'], [(H, """            if (label in ("P", "L")):
                return None
""", """            if (label in {"P", "L"}):
                return None
""")], neutral=True)
V('n-arc-offsets-local-table', ['C16', 'C19'], [(H, """        radius = None
        i = 0
        j = 0
""", """        radius = None
        offsets = {"I": 0, "J": 0}
"""), (H, """                elif (label == "I"):
                    i = value
                elif (label == "J"):
                    j = value
""", """                elif (label in offsets):
                    offsets[label] = value

        i = offsets["I"]
        j = offsets["J"]
""")], neutral=True)

# ---------------------------------------------------------------- round-5 / round-6 rules
V('c13-delete-compares-text', ['C13'], [(S, """            if (self.excludedRegions[index].id == regionId):
                del self.excludedRegions[index]""", """            if (str(self.excludedRegions[index].id) == str(regionId)):
                del self.excludedRegions[index]""")])
V('c08-home-resets-mode', ['C08', 'C01', 'C02'], [(A, """        self.current = 0
        self.offset = 0
""", """        self.current = 0
        self.offset = 0
        self.absoluteMode = True
""")])
V('c08-units-clear-offset', ['C08', 'C01'], [(A, """        \"\"\"
        self.unitMultiplier = float(unitMultiplier)
""", """        \"\"\"
        self.unitMultiplier = float(unitMultiplier)
        self.offset = 0
""")])
V('c03-copy-constructor-drops-offset', ['C03', 'C08'], [(A, """            self.unitMultiplier = float(unitMultiplier)
""", """            self.unitMultiplier = float(unitMultiplier)
        self.offset = 0
""")])
V('c20-code-kept-when-no-command', ['C20', 'C18'], [(G, """        else:
            self._code = None
            self._gcode = None
            self._subCode = None
""", """        else:
            self._code = None
            self._gcode = None
""")])
V('c01-handler-returns-early-when-disabled', ['C01', 'C14', 'C02'], [(H, """        extruderPosition = None
        feedRate = None
        x = None
        y = None
        z = None

        for label, value in self.gcodeParser.parse(cmd).parameterItems():
            if (value is not None):
                if (label == "E"):""", """        if (not self.state.isExclusionEnabled()):
            return None

        extruderPosition = None
        feedRate = None
        x = None
        y = None
        z = None

        for label, value in self.gcodeParser.parse(cmd).parameterItems():
            if (value is not None):
                if (label == "E"):""")])
V('c02-region-test-clamped', ['C02', 'C01', 'C08'], [(S, """            if (not anyExcluded and self.isPointExcluded(x, y)):
                anyExcluded = True
""", """            if (not anyExcluded and self.isPointExcluded(max(x, 0), y)):
                anyExcluded = True
""")])
V('c19-m206-magnitude-only', ['C19'], [(H, """                if (label == "X"):
                    position.X_AXIS.setHomeOffset(value)""", """                if (label == "X"):
                    position.X_AXIS.setHomeOffset(abs(value))""")])
V('c17-squared-distance-unguarded', ['C17', 'C12'], [(CR, """        return self.r >= math.hypot(x - self.cx, y - self.cy)
""", """        deltaX = x - self.cx
        deltaY = y - self.cy
        return (deltaX * deltaX + deltaY * deltaY) <= (self.r * self.r)
""")])
V('n-squared-distance-guarded', ['C17', 'C12', 'C01', 'C02'], [(CR, """        return self.r >= math.hypot(x - self.cx, y - self.cy)
""", """        deltaX = x - self.cx
        deltaY = y - self.cy
        return (self.r >= 0) and ((deltaX * deltaX + deltaY * deltaY) <= (self.r * self.r))
""")], neutral=True)
V('c18-zero-checksum-not-stripped', ['C18'], [(G, """        if (self._checksum is not None):
            self._rawChecksum = "*" + self._checksum
            self._checksum = int(self._checksum)
            self.text = self.text[:-len(self._rawChecksum)]""", """        if (self._checksum is not None):
            self._rawChecksum = "*" + self._checksum
            self._checksum = int(self._checksum)
            if (self._checksum):
                self.text = self.text[:-len(self._rawChecksum)]""")])
V('c14-z-only-move-reuses-decision', ['C14', 'C01'], [(S, """        anyExcluded = False

        # Always walk""", """        anyExcluded = False

        if (xyPairs[-2] is None and xyPairs[-1] is None and len(xyPairs) == 2):
            return self.excluding

        # Always walk""")])
V('c05-generated-amount-in-file-units', ['C05', 'C04'], [(R, """            amount = self.extrusionAmount * direction
""", """            amount = self.extrusionAmount * direction / position.E_AXIS.unitMultiplier
""")])
# ---------------------------------------------------------------- round 12 rules
AT = 'AtCommandAction.py'
V('c07-params-regex-needs-blank', ['C07', 'C05'], [(R, '''GCODE_PARAMS_REGEX = re.compile("^[A-Za-z][0-9]+(?:\\\\.[0-9]+)?\\\\s*(.*)$")''',
                                                     '''GCODE_PARAMS_REGEX = re.compile("^[A-Za-z][0-9]+(?:\\\\.[0-9]+)?(?:\\\\s+(.*))?$")''')])
V('c14-matches-returns-matched-text', ['C14'], [(AT, """            return (self.parameterPattern is None) or self.parameterPattern.match(parameters)""",
                                                 """            if (self.parameterPattern is None):
                return True
            match = self.parameterPattern.match(parameters)
            return match.group(0) if match else False""")])
V('n-matches-returns-bool', ['C14', 'C06'], [(AT, """            return (self.parameterPattern is None) or self.parameterPattern.match(parameters)""",
                                              """            return (self.parameterPattern is None) or (self.parameterPattern.match(parameters) is not None)""")], neutral=True)
V('c15-active-after-done-while-excluding', ['C15', 'C11'], [(P, """            self._logger.info("Printing stopped: event=%s", event)
            self._activePrintJob = False""", """            self._logger.info("Printing stopped: event=%s", event)
            self._activePrintJob = (event == Events.PRINT_DONE) and self.state.excluding""")])
# ---------------------------------------------------------------- round 13 rules
V('c20-class-level-pending-map', ['C20'], [(S, """    def __init__(self, logger):""", """    pendingCommands = OrderedDict()

    def __init__(self, logger):"""), (S, """        self.pendingCommands = OrderedDict()""", """        self.pendingCommands.clear()""")])
V('n-class-level-default-still-owned', ['C20', 'C10', 'C06'], [(S, """    def __init__(self, logger):""", """    pendingCommands = OrderedDict()

    def __init__(self, logger):""")], neutral=True)
V('c06-deferred-keyed-by-subcode', ['C06'], [(S, """                return self._processExtendedGcodeEntry(entry.mode, cmd, gcode)""",
                                               """                code = gcode if (subcode is None) else "{}.{}".format(gcode, subcode)
                return self._processExtendedGcodeEntry(entry.mode, cmd, code)""")])
V('c09-subcode-concatenated', ['C09'], [(S, """            entry = self.extendedExcludeGcodes.get(gcode)
            if (entry is not None):""", """            entry = self.extendedExcludeGcodes.get(gcode)
            if ((entry is None) and subcode):
                entry = self.extendedExcludeGcodes.get(gcode + "." + subcode)

            if (entry is not None):""")])
V('n-subcode-formatted-lookup', ['C09', 'C06'], [(S, """            entry = self.extendedExcludeGcodes.get(gcode)
            if (entry is not None):""", """            entry = self.extendedExcludeGcodes.get(gcode)
            if ((entry is None) and subcode):
                self._logger.debug("no entry for %s (sub code %s)", gcode, subcode)

            if (entry is not None):""")], neutral=True)
V('c02-arc-untracked-while-disabled', ['C02', 'C14', 'C08', 'C01'], [(H, """        if (i or j):
            xyPairs = self.planArc(x, y, i, j, clockwise)""", """        if (i or j):
            if (not self.state.isExclusionEnabled()):
                return None

            xyPairs = self.planArc(x, y, i, j, clockwise)""")])
V('c01-sethome-drops-unit-factor', ['C01', 'C02', 'C08'], [(A, """        self.current = 0
        self.offset = 0
""", """        self.__init__(0, self.homeOffset, 0.0, self.absoluteMode)
""")])
V('n-sethome-reinit-all-fields', ['C01', 'C08'], [(A, """        self.current = 0
        self.offset = 0
""", """        self.__init__(0, self.homeOffset, 0.0, self.absoluteMode, self.unitMultiplier)
""")], neutral=True)
V('c04-e-only-feed-command-forwarded', ['C04', 'C01'], [(S, """            returnCommands = self._processNonMove(cmd, deltaE)""", """            if (self.excluding and (deltaE == 0) and (feedRate is not None)):
                returnCommands = [cmd]
            else:
                returnCommands = self._processNonMove(cmd, deltaE)""")])
# ---------------------------------------------------------------- round 14 / 15 rules
V('c11-flags-refreshed-after-raising-code', ['C11', 'C12'], [(P, """        self.clearRegionsAfterPrintFinishes = \\
            self._settings.get_boolean(["clearRegionsAfterPrintFinishes"])

        self.mayShrinkRegionsWhilePrinting = \\
            self._settings.get_boolean(["mayShrinkRegionsWhilePrinting"])

        self.state.g90InfluencesExtruder""", """        self.state.g90InfluencesExtruder"""), (P, """        self.loggingMode = self._settings.get(["loggingMode"])
""", """        self.loggingMode = self._settings.get(["loggingMode"])

        self.clearRegionsAfterPrintFinishes = \\
            self._settings.get_boolean(["clearRegionsAfterPrintFinishes"])

        self.mayShrinkRegionsWhilePrinting = \\
            self._settings.get_boolean(["mayShrinkRegionsWhilePrinting"])
""")])
V('n-flags-swapped-order', ['C11', 'C12'], [(P, """        self.clearRegionsAfterPrintFinishes = \\
            self._settings.get_boolean(["clearRegionsAfterPrintFinishes"])

        self.mayShrinkRegionsWhilePrinting = \\
            self._settings.get_boolean(["mayShrinkRegionsWhilePrinting"])
""", """        self.mayShrinkRegionsWhilePrinting = \\
            self._settings.get_boolean(["mayShrinkRegionsWhilePrinting"])

        self.clearRegionsAfterPrintFinishes = \\
            self._settings.get_boolean(["clearRegionsAfterPrintFinishes"])
""")], neutral=True)
V('c04-bare-g28-homes-extruder', ['C04', 'C08', 'C01', 'C05'], [(H, """            homeX = True
            homeY = True
            homeZ = True
""", """            homeX = True
            homeY = True
            homeZ = True
            position.E_AXIS.setHome()
""")])
V('c08-g21-resets-feed-rate', ['C08', 'C03'], [(H, """        self.state.setUnitMultiplier(1)
""", """        self.state.setUnitMultiplier(1)
        self.state.feedRate = 0
""")])
V('c20-handlers-configured-from-outside', ['C20'], [(P, """        self.loggingMode = self._settings.get(["loggingMode"])
""", """        self.loggingMode = self._settings.get(["loggingMode"])
        self.gcodeHandlers.gcodeParser = None
""")])
V('c07-sign-stripped-from-small-negatives', ['C07', 'C03'], [('CommonMixin.py', """    return text
""", """    if (text.startswith("-0.0")):
        text = text[1:]

    return text
""")])
V('c17-inscribed-square-rounded-up', ['C17', 'C01'], [(CR, """        return self.r >= math.hypot(x - self.cx, y - self.cy)
""", """        dx = abs(x - self.cx)
        dy = abs(y - self.cy)
        if ((dx > self.r) or (dy > self.r)):
            return False
        if ((dx <= self.r * 0.70711) and (dy <= self.r * 0.70711)):
            return True
        return self.r >= math.hypot(dx, dy)
""")])
V('n-bounding-box-quick-reject', ['C17', 'C01', 'C12'], [(CR, """        return self.r >= math.hypot(x - self.cx, y - self.cy)
""", """        dx = abs(x - self.cx)
        dy = abs(y - self.cy)
        if ((dx > self.r) or (dy > self.r)):
            return False
        return self.r >= math.hypot(dx, dy)
""")], neutral=True)
# ---------------------------------------------------------------- round 16 rules
V('c07-combine-extends-original-command', ['C07'], [(R, """                    self.extrusionAmount += other.extrusionAmount
""", """                    self.extrusionAmount += other.extrusionAmount
                else:
                    self.originalCommand += " " + GCODE_PARAMS_REGEX.sub("\\\\1", other.originalCommand)
""")])
V('c08-absent-words-zero-in-relative-mode', ['C08', 'C05', 'C04', 'C01'], [(H, """        extruderPosition = None
        feedRate = None
        x = None
        y = None
        z = None
""", """        extruderPosition = None
        feedRate = None
        x = None if (self.state.position.X_AXIS.absoluteMode) else 0
        y = None if (self.state.position.Y_AXIS.absoluteMode) else 0
        z = None if (self.state.position.Z_AXIS.absoluteMode) else 0
""")])
V('c12-paused-is-not-printing', ['C12', 'C11'], [(P, """        elif (event in (
                Events.PRINT_DONE,""", """        elif (event == Events.PRINT_PAUSED):
            self._activePrintJob = False
        elif (event == Events.PRINT_RESUMED):
            self._activePrintJob = True
        elif (event in (
                Events.PRINT_DONE,""")])
V('c14-offline-buffer-emptied-in-place', ['C14', 'C20'], [(SP, """        self.bufferedCommands = []

    def isStreaming""", """        del self.bufferedCommands[:]

    def isStreaming"""), (SP, """        self.commInstance.reset()

        if (self.gcodeHandlers.handleAtCommand(
                self.commInstance,
                command,
                parameters
        )):
            if (self.commInstance.bufferedCommands):
                return self.eol.join(self.commInstance.bufferedCommands) + self.eol
""", """        handled = self.gcodeHandlers.handleAtCommand(self.commInstance, command, parameters)
        bufferedCommands = self.commInstance.bufferedCommands
        self.commInstance.reset()

        if (handled):
            if (bufferedCommands):
                return self.eol.join(bufferedCommands) + self.eol
""")])
V('n-offline-buffer-emptied-in-place-before', ['C14', 'C20'], [(SP, """        self.bufferedCommands = []

    def isStreaming""", """        del self.bufferedCommands[:]

    def isStreaming""")], neutral=True)
# ---------------------------------------------------------------- round 17 / 18 rules
V('c09-squared-distance-with-power', ['C09', 'C17'], [(CR, """        return self.r >= math.hypot(x - self.cx, y - self.cy)
""", """        return (self.r >= 0) and (self.r ** 2 >= (x - self.cx) ** 2 + (y - self.cy) ** 2)
""")])
V('c16-full-circle-needs-end-point', ['C16'], [(H, """        radius = None
        i = 0
        j = 0

        for label, value in self.gcodeParser.parse(cmd).parameterItems():
            if (value is not None):
                if (label == "X"):
                    x = value
                elif (label == "Y"):
                    y = value
""", """        radius = None
        i = 0
        j = 0
        hasEndPoint = False

        for label, value in self.gcodeParser.parse(cmd).parameterItems():
            if (value is not None):
                if (label == "X"):
                    x = value
                    hasEndPoint = True
                elif (label == "Y"):
                    y = value
                    hasEndPoint = True
"""), (H, """        if (i or j):
            xyPairs = self.planArc(x, y, i, j, clockwise)""", """        if ((i or j) and hasEndPoint):
            xyPairs = self.planArc(x, y, i, j, clockwise)""")])
V('c18-blank-parameters-dropped', ['C18'], [(G, """            if (self._parameters is not None):
                pieces.append(self._parameters)
""", """            if (self._parameters is not None) and (self._parameters.strip()):
                pieces.append(self._parameters)
""")])
V('c19-parse-keeps-cached-word-map', ['C19', 'C18', 'C20'], [(G, """        self._updateParameters(match.group(9))
""", """        self._parameters = match.group(9)
""")])
V('c07-g92-adds-native-amount-to-logical', ['C07', 'C04', 'C05'], [(R, """            eAxis.current += amount

            returnCommands.append(
                # Set logical extruder position
                "G92 E{e}".format(e=plainDecimal(eAxis.nativeToLogical()))
            )

            eAxis.current -= amount
""", """            returnCommands.append(
                # Set logical extruder position
                "G92 E{e}".format(e=plainDecimal(eAxis.nativeToLogical() + amount))
            )
""")])
# ---------------------------------------------------------------- round 19 rules
V('c04-g92-e0-not-applied', ['C04', 'C08'], [(H, """                    position.E_AXIS.setLogicalPosition(value)
                elif (label == "X"):""", """                    if (value):
                        position.E_AXIS.setLogicalPosition(value)
                elif (label == "X"):""")])
