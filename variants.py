"""Catalogue of seeded variants (must be detected) and neutral refactors (must stay silent)."""
S = 'ExcludeRegionState.py'
H = 'GcodeHandlers.py'
R = 'RetractionState.py'
A = 'AxisPosition.py'
P = '__init__.py'

VARIANTS = []


def V(name, props, edits, neutral=False):
    VARIANTS.append({'name': name, 'props': props, 'edits': edits, 'neutral': neutral})


# ---------------------------------------------------------------- C01 / C02 / C09
V('c01-cmd-from-excluded-branch', ['C01'], [(S, """        if (not self.excluding):
            returnCommands = self.enterExcludedRegion(cmd)
        else:
            returnCommands = []
""", """        if (not self.excluding):
            returnCommands = self.enterExcludedRegion(cmd)
        else:
            returnCommands = [cmd]
""")])
V('c01-enabled-guard-inverted', ['C01', 'C02'], [(S, """        if (self._exclusionEnabled):
            for region in self.excludedRegions:""", """        if (not self._exclusionEnabled):
            for region in self.excludedRegions:""")])
V('c01-region-loop-break', ['C01'], [(S, """                if (region.containsPoint(x, y)):
                    return True
""", """                if (region.containsPoint(x, y)):
                    return True
                break
""")])
V('c01-range-step-4', ['C01'], [(S, "for index in range(0, len(xyPairs), 2):", "for index in range(0, len(xyPairs), 4):")])
V('c01-excluding-test-before-region-test', ['C01'], [(S, """        elif (self.isAnyPointExcluded(*xyPairs)):
            wasExcluding = self.excluding""", """        elif (not self.excluding and deltaE == 0 and finalZ is not None):
            returnCommands = [cmd]
        elif (self.isAnyPointExcluded(*xyPairs)):
            wasExcluding = self.excluding""")])
V('c01-recovery-forwarded-while-excluding', ['C01', 'C05'], [(S, """                if (isRecoveryCommand):
                    self.lastRetraction.recoverExcluded = True
""", """                if (isRecoveryCommand):
                    self.lastRetraction.recoverExcluded = True
                    returnCommands.append(cmd)
""")])
V('c01-tracking-only-when-enabled', ['C01', 'C14'], [(S, """        for index in range(0, len(xyPairs), 2):
            x = xAxis.setLogicalPosition(xyPairs[index])
            y = yAxis.setLogicalPosition(xyPairs[index + 1])

            if (not anyExcluded and self.isPointExcluded(x, y)):
                anyExcluded = True
""", """        for index in range(0, len(xyPairs), 2):
            if (not self._exclusionEnabled):
                break
            x = xAxis.setLogicalPosition(xyPairs[index])
            y = yAxis.setLogicalPosition(xyPairs[index + 1])

            if (not anyExcluded and self.isPointExcluded(x, y)):
                anyExcluded = True
""")])
V('c01-early-return-first-excluded', ['C01'], [(S, """            if (not anyExcluded and self.isPointExcluded(x, y)):
                anyExcluded = True
""", """            if (self.isPointExcluded(x, y)):
                return True
""")])
V('c02-nonmove-feedrate-dropped', ['C02'], [(S, """        elif (not self.excluding):
            # something else (no move, no extrude, probably just setting feedrate)
            return [cmd]
""", """        elif (not self.excluding and self.lastRetraction is None):
            # something else (no move, no extrude, probably just setting feedrate)
            return [cmd]
""")])
V('c02-g21-ignored', ['C02'], [(H, """        self.state.setUnitMultiplier(1)
""", """        self.state.setUnitMultiplier(1)
        return self.state.ignoreGcodeCommand()
""")])
V('c02-generated-retract-outside', ['C02'], [(S, """            if (self.excluding):
                # If this is the first retraction while excluding allow the retraction to execute""", """            if (self.excluding or retract.firmwareRetract):
                # If this is the first retraction while excluding allow the retraction to execute""")])
V('c02-cmd-stripped', ['C02'], [(S, """            returnCommands = self.recoverRetractionIfNeeded(cmd, False)
        else:
            returnCommands = [cmd]
""", """            returnCommands = self.recoverRetractionIfNeeded(cmd, False)
        else:
            returnCommands = [cmd.strip()]
""")])
V('c09-normalisation-removed-plm', ['C09'], [(S, """        if (not returnCommands):
            returnCommands = self.ignoreGcodeCommand()

        return returnCommands

    def enterExcludedRegion""", """        return returnCommands

    def enterExcludedRegion""")])
V('c09-normalisation-removed-g10', ['C09'], [(H, """        if (not returnCommands):
            return self.state.ignoreGcodeCommand()

        return returnCommands

    def _handle_G11""", """        return returnCommands

    def _handle_G11""")])
V('c09-halfdist-guard-removed', ['C09'], [(H, "            if (halfDist <= abs(radius)):", "            if (halfDist <= abs(radius) or clockwise):")])
V('c09-new-raise-in-handler', ['C09'], [(H, """        if (i or j):
            xyPairs = self.planArc(x, y, i, j, clockwise)""", """        if (radius is not None and radius < 0 and extruderPosition is not None):
            raise ValueError("negative radius with extrusion is not supported")

        if (i or j):
            xyPairs = self.planArc(x, y, i, j, clockwise)""")])
V('c09-zero-segment-guard-removed', ['C09'], [(H, "numSegments = max(1, int(math.ceil(arcLength / MM_PER_ARC_SEGMENT)))", "numSegments = int(math.ceil(arcLength / MM_PER_ARC_SEGMENT))")])

# ---------------------------------------------------------------- neutral refactors
V('n-ifelif-to-membership', ['C01', 'C02', 'C09'], [(H, """            if (label == "X"):
                homeX = True
            elif (label == "Y"):
                homeY = True
            elif (label == "Z"):
                homeZ = True
""", """            if (label in ("X",)):
                homeX = True
            elif (label == "Y"):
                homeY = True
            elif ("Z" == label):
                homeZ = True
""")], neutral=True)
V('n-format-to-fstring', ['C01', 'C02', 'C09'], [(S, """            "G92 E{e}".format(e=self.position.E_AXIS.nativeToLogical())""", """            f"G92 E{self.position.E_AXIS.nativeToLogical()}\"""")], neutral=True)
V('n-helper-extracted', ['C01', 'C02', 'C09'], [(S, """        if (not isMove):
            for val in xyPairs:
                if (val is not None):
                    isMove = True
                    break
""", """        if (not isMove):
            isMove = self._hasCoordinate(xyPairs)
"""), (S, """    def enterExcludedRegion(self, cmd):""", """    def _hasCoordinate(self, values):
        for val in values:
            if (val is not None):
                return True
        return False

    def enterExcludedRegion(self, cmd):""")], neutral=True)
V('n-demorgan', ['C01', 'C02', 'C09'], [(S, """        elif (not self.excluding):
            # something else (no move, no extrude, probably just setting feedrate)
            return [cmd]

        return []""", """        elif (self.excluding):
            return []

        return [cmd]""")], neutral=True)
V('n-renamed-locals', ['C01', 'C02', 'C09'], [(S, """        returnCommands = []

        if (self.lastRetraction is not None):
            self.lastRetraction.allowCombine = False
""", """        returnCommands = []
        pendingRetraction = self.lastRetraction

        if (pendingRetraction is not None):
            pendingRetraction.allowCombine = False
""")], neutral=True)
