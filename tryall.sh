#!/bin/bash
# usage: tryall.sh <patch file>  - applies the patch to /repo, runs every claimed check (quick), always undoes it
patch=$1
cd /repo || exit 2
git apply --check "$patch" || { echo "patch does not apply"; exit 2; }
git apply "$patch"
VERIF_OUT=/tmp/tryall_out /verif/runall.sh 2>&1 | sort | grep -v "exit=0"
for f in /tmp/runall_C*.log; do grep -H -E "^  violation:|ANALYSIS-ERROR" $f | head -2 | cut -c1-300; done
git -C /repo checkout -- .
git -C /repo status --short | head -3
