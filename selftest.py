#!/usr/bin/env python3
"""Checker self-validation: seeded variants must be reported, neutral refactors must stay silent.

Each variant is a textual edit applied to a scratch copy of /repo's package (made under a fresh temporary
directory, removed afterwards).  The registered check is then run with VERIF_REPO pointing at the copy.
These numbers describe the checker, not the property: selftest never changes a check's exit code.

usage: selftest.py [Cxx ...] [--jobs N] [--list]
"""
import json
import os
import shutil
import subprocess
import sys
import tempfile
from concurrent.futures import ThreadPoolExecutor

HERE = os.path.dirname(os.path.abspath(__file__))
REPO = os.environ.get('VERIF_REPO', '/repo')
PKG = 'octoprint_excluderegion'


def load_variants():
    sys.path.insert(0, HERE)
    from variants import VARIANTS
    return VARIANTS


def apply_edit(root, fname, old, new, count=1):
    p = os.path.join(root, PKG, fname)
    s = open(p, newline='').read()
    crlf = '\r\n' in s
    s = s.replace('\r\n', '\n')
    if s.count(old) < 1:
        return False
    s = s.replace(old, new, count)
    if crlf:
        s = s.replace('\n', '\r\n')
    open(p, 'w', newline='').write(s)
    return True


def run_variant(v):
    tmp = tempfile.mkdtemp(prefix='verif-selftest-')
    try:
        shutil.copytree(os.path.join(REPO, PKG), os.path.join(tmp, PKG))
        for (fname, old, new) in v['edits']:
            if not apply_edit(tmp, fname, old, new):
                return dict(v, outcome='not-applicable', edits=None)
        # must still be valid python
        for fname, _o, _n in v['edits']:
            r = subprocess.run([sys.executable, '-m', 'py_compile', os.path.join(tmp, PKG, fname)],
                               capture_output=True)
            if r.returncode != 0:
                return dict(v, outcome='does-not-compile', edits=None)
        env = dict(os.environ, VERIF_REPO=tmp, VERIF_OUT=os.path.join(tmp, 'out'), VERIF_JOBS='2')
        res = {}
        for prop in v['props']:
            r = subprocess.run([sys.executable, os.path.join(HERE, 'check.py'), prop, '--tier', 'quick'],
                               capture_output=True, text=True, env=env, timeout=900)
            lines = [l for l in r.stdout.splitlines() if l.startswith('  violation:') or l.startswith('ANALYSIS-ERROR')]
            res[prop] = {'exit': r.returncode, 'lines': lines[:3]}
        if v.get('neutral'):
            outcome = 'silent' if all(x['exit'] == 0 for x in res.values()) else 'FALSE-ALARM'
        else:
            outcome = 'detected' if any(x['exit'] == 1 for x in res.values()) else \
                ('analysis-error' if any(x['exit'] == 2 for x in res.values()) else 'MISSED')
        return dict(v, outcome=outcome, results=res, edits=None)
    finally:
        shutil.rmtree(tmp, ignore_errors=True)


def main(argv):
    variants = load_variants()
    props = [a for a in argv[1:] if a.startswith('C')]
    names = [a[2:] for a in argv[1:] if a.startswith('n=')]
    jobs = 8
    if '--jobs' in argv:
        jobs = int(argv[argv.index('--jobs') + 1])
    sel = [v for v in variants if (not props or set(v['props']) & set(props)) and (not names or v['name'] in names)]
    if props:
        for v in sel:
            v['props'] = [p for p in v['props'] if p in props]
    if '--list' in argv:
        for v in sel:
            print(v['name'], v['props'], 'neutral' if v.get('neutral') else '')
        return 0
    with ThreadPoolExecutor(jobs) as ex:
        results = list(ex.map(run_variant, sel))
    bad = 0
    for r in results:
        mark = 'ok ' if r['outcome'] in ('detected', 'silent') else '!! '
        if mark == '!! ':
            bad += 1
        print('%s%-14s %-40s %s' % (mark, r['outcome'], r['name'], ','.join(r['props'])))
        if r['outcome'] in ('detected', 'FALSE-ALARM', 'analysis-error'):
            for p, x in r.get('results', {}).items():
                for l in x['lines'][:1]:
                    print('        %s: %s' % (p, l.strip()[:200]))
    summary = {
        'variants_applied': sum(1 for r in results if not r.get('neutral') and r['outcome'] not in ('not-applicable', 'does-not-compile')),
        'variants_detected': sum(1 for r in results if r['outcome'] == 'detected'),
        'neutral_applied': sum(1 for r in results if r.get('neutral') and r['outcome'] not in ('not-applicable', 'does-not-compile')),
        'neutral_silent': sum(1 for r in results if r['outcome'] == 'silent'),
        'not_applicable': [r['name'] for r in results if r['outcome'] in ('not-applicable', 'does-not-compile')],
        'missed': [r['name'] for r in results if r['outcome'] == 'MISSED'],
        'false_alarms': [r['name'] for r in results if r['outcome'] == 'FALSE-ALARM'],
        'analysis_errors': [r['name'] for r in results if r['outcome'] == 'analysis-error'],
    }
    print(json.dumps(summary, indent=1))
    out = os.environ.get('VERIF_SELFTEST_OUT')
    if out:
        json.dump(summary, open(out, 'w'), indent=1)
    return 0


if __name__ == '__main__':
    sys.exit(main(sys.argv))
